(* C15 - every HTTP result yields exactly one well-classified outcome.  Statements only.
   Model: HttpResp/Resp.v (crux_http after the fix: commits c181421, 649a428, 621d2f7, 716537a);
   proofs: HttpResp/RespProofs.v.  The three oracles (http-types Mime charset lookup, encoding_rs,
   serde_json) are universally quantified in every statement. *)
From Coq Require Import List NArith Bool String.
From Crux Require Import HttpResp.Resp HttpResp.RespProofs.
Import ListNotations.
Open Scope string_scope. Open Scope N_scope.

(* Full statement: for every API, expectation and shell result, the single event the app receives
   satisfies the classification predicate [C15_ok] (Resp.v: shell error unchanged; 4xx/5xx => Http
   error with that status and body; 1xx-3xx => success with the same status, headers and body decoded
   as the conforming decoder decodes it, or an error value when that decoder rejects the body; no panic,
   exactly one event). *)
Definition C15_full_statement : Prop :=
  forall mime_charset decode json a x r,
    C15_ok mime_charset decode json x r (run mime_charset decode json a x r) = true.

(* Proved for every input: exactly one event, never a panic (in both APIs). *)
Theorem C15_one_outcome : forall mime_charset decode json a x r,
  exists o, run mime_charset decode json a x r = T1 o /\ o <> HPanic.
Proof. exact one_outcome. Qed.

Theorem C15_one_outcome_decidable : forall mime_charset decode json a x r,
  one_nonpanic (run mime_charset decode json a x r) = true.
Proof. exact one_nonpanic_run. Qed.

(* Proved part of the classification: everything outside the two listed classes (a status between 100
   and 599 that http-types has no name for; a header name or value that is not ASCII). *)
Theorem C15_classify_partial : forall mime_charset decode json a x r,
  known_unknown_status r = false -> known_non_ascii_header r = false ->
  C15_ok mime_charset decode json x r (run mime_charset decode json a x r) = true.
Proof. exact model_ok. Qed.

(* The clauses of the classification, stated separately. *)
Theorem C15_shell_error_unchanged : forall mime_charset decode json a x e,
  run mime_charset decode json a x (RErr e) = T1 (HErr e).
Proof. exact passthrough. Qed.

Theorem C15_error_status : forall mime_charset decode json a x resp,
  known_status (r_status resp) = true -> all_ascii (r_headers resp) = true -> 400 <= r_status resp ->
  run mime_charset decode json a x (ROk resp) =
  T1 (HErr (EHttp (r_status resp) (dec (r_status resp)) (Some (r_body resp)))).
Proof. exact error_status. Qed.

Theorem C15_success_faithful : forall mime_charset decode json a x resp,
  known_status (r_status resp) = true -> all_ascii (r_headers resp) = true -> r_status resp < 400 ->
  match expected_body mime_charset decode json x resp with
  | Some b => exists o, run mime_charset decode json a x (ROk resp) = T1 (HOk o) /\
                        rs_status o = r_status resp /\
                        headers_same_b (r_headers resp) (rs_headers o) = true /\
                        rs_body o = Some b /\ rs_version o = None
  | None => exists e, run mime_charset decode json a x (ROk resp) = T1 (HErr e)
  end.
Proof. exact success_faithful. Qed.

(* "the same headers", unfolded: under every name the app finds exactly the values the shell sent under
   that name (case-insensitively), in the shell's order *)
Theorem C15_headers_lookup : forall hs name,
  hm_get (lower name) (build hs []) = match shell_values name hs with [] => None | vs => Some vs end.
Proof. exact headers_lookup. Qed.

Theorem C15_both_apis_agree : forall mime_charset decode json x r,
  run mime_charset decode json ACmd x r = run mime_charset decode json ACap x r.
Proof. exact apis_agree. Qed.

(* What happens inside the two classes since the fix: commits: an error value, not a panic. *)
Theorem C15_unrepresentable_is_error : forall mime_charset decode json a x resp,
  known_status (r_status resp) && all_ascii (r_headers resp) = false ->
  exists msg, run mime_charset decode json a x (ROk resp) = T1 (HErr (EIo msg)).
Proof. exact run_unrepresentable. Qed.

(* The full statement is false of the faithful model; both witnesses are replayed on the code. *)
Definition C15_witness_299 : http_response := {| r_status := 299; r_headers := []; r_body := [104; 105] |}.
Theorem C15_unknown_status_refuted : forall mime_charset decode json a,
  run mime_charset decode json a XBytes (ROk C15_witness_299) = T1 (HErr (EIo (msg_status 299))) /\
  C15_ok mime_charset decode json XBytes (ROk C15_witness_299)
         (run mime_charset decode json a XBytes (ROk C15_witness_299)) = false.
Proof. intros mc d j a. destruct a; split; reflexivity. Qed.

(* header value "é" (UTF-8 c3 a9) on a 200 *)
Definition C15_witness_e_acute : http_response :=
  {| r_status := 200; r_headers := [([120; 45; 97], [195; 169])]; r_body := [104; 105] |}.
Theorem C15_non_ascii_header_refuted : forall mime_charset decode json a,
  run mime_charset decode json a XBytes (ROk C15_witness_e_acute) = T1 (HErr (EIo (msg_value [120; 45; 97]))) /\
  C15_ok mime_charset decode json XBytes (ROk C15_witness_e_acute)
         (run mime_charset decode json a XBytes (ROk C15_witness_e_acute)) = false.
Proof. intros mc d j a. destruct a; split; reflexivity. Qed.

Theorem C15_full_statement_refuted :
  exists mime_charset decode json a x r,
    C15_ok mime_charset decode json x r (run mime_charset decode json a x r) = false.
Proof. exact full_statement_counterexample. Qed.

(* non-vacuity: the hypotheses of the partial theorem are met by an ordinary response, which succeeds
   with its headers merged by name *)
Example C15_nonvacuous :
  let r := {| r_status := 200;
              r_headers := [(str "Content-Type", str "text/plain; charset=utf-8"); (str "X-A", str "1"); (str "x-a", str "2")];
              r_body := str "hi" |} in
  known_unknown_status (ROk r) = false /\ known_non_ascii_header (ROk r) = false /\
  run (fun _ => Some (str "utf-8")) (fun _ b => inl b) (fun b => inl b) ACap XString (ROk r) =
  T1 (HOk {| rs_status := 200; rs_version := None;
             rs_headers := [(str "content-type", [str "text/plain; charset=utf-8"]); (str "x-a", [str "1"; str "2"])];
             rs_body := Some (BString (str "hi")) |}).
Proof. vm_compute. repeat split. Qed.
