(* C04 - command combinators and builder chains mean what they say.  Statements only. *)
From Coq Require Import List Arith Bool NArith.
From Crux Require Import Rt.Lang Rt.Rt Rt.Host Rt.Ref Rt.RefProps Rt.RefLaws Rt.Check Rt.SmallScope Rt.SmallScopeProof.
Import ListNotations.

(* Full statement (kept visible): for every command and every schedule the runtime model's trace
   equals the reference semantics' trace per step up to the order of outputs within a step.  The
   refinement is NOT proved yet; it is carried on every run by comparing the reference semantics with
   the real implementation (C04_ok on implementation traces) and the runtime model with the
   implementation.  What is proved are the laws of the reference semantics themselves. *)
Definition C04_refines_full_statement : Prop :=
  forall p acts t, cmd_abort_free p = true -> sched_abort_free acts = true ->
    direct FUEL0 p acts = Some t -> C04_ok (false, false, p, [], acts, t) = true.

(* The refinement itself on an exhaustive small scope, decided by the kernel (coq/Rt/SmallScope.v): for ALL 1505
   commands built from tasks of at most two statements (emit, notify, request, stream loops, spawn with and
   without join, self-wake, join!, select!), an optional extra task and five wrappers (none, then, all with a
   sibling, map_event over map_effect, and with map_effect), under ALL schedules of at most two shell inputs
   (resolve or drop any request of the command) with effects / events / is_done inspected before the first and
   after every input - 24 111 (command, schedule) cases - the trace of the runtime model (queues, wakers, slabs,
   eviction, forwarding) equals the trace of the reference semantics step for step: same effects and events up
   to order within a step, same done flags, same result codes.  A finite statement, the bound is part of it. *)
Theorem C04_refines_on_the_small_scope : forall c acts, In c small_cmds -> In acts (scheds c) ->
  exists t r, direct FUEL0 c acts = Some t /\ ref_direct RF c acts = Some r /\ list_eqb2 robs_obs_eqb r t = true /\
              in_fragment (false, false, c, [], acts, t) = true.
Proof. exact small_scope_refines_each. Qed.
Theorem C04_small_scope_size : (N.of_nat (length small_cmds), small_scope_size) = (1505%N, 24111%N).
Proof. exact small_scope_counts. Qed.

(* Laws, for every command, every fuel and every schedule of inspections, resolutions, drops (exact
   equality of traces, resolve result codes and done flags included).  Schedules that also spawn further
   tasks onto the outermost command (cmd.spawn) are excluded: there the wrapped and the bare command
   differ structurally (the task lands beside the wrapper, not inside it) and the simulation used here
   does not cover that yet. *)
Theorem C04_all_of_one_is_that_command : forall f c acts, no_spawn acts = true -> ref_direct (S f) (CAll [c]) acts = ref_direct f c acts.
Proof. exact all_singleton. Qed.
Theorem C04_map_effect_identity : forall f c acts, no_spawn acts = true -> ref_direct (S f) (CIdEff c) acts = ref_direct f c acts.
Proof. exact map_effect_id. Qed.
Theorem C04_map_event_identity : forall f c acts, no_spawn acts = true -> ref_direct (S f) (CIdEv c) acts = ref_direct f c acts.
Proof. exact map_event_id. Qed.
Theorem C04_into_identity : forall f c acts, no_spawn acts = true -> ref_direct (S (S f)) (CInto c) acts = ref_direct f c acts.
Proof. exact into_id. Qed.
Theorem C04_nesting_to_any_depth : forall k f c acts, no_spawn acts = true -> ref_direct (3 * k + f) (wrapn k c) acts = ref_direct f c acts.
Proof. exact nesting_invariant. Qed.

(* done is a unit for then on the RIGHT as well, and for and on either side; all of nothing is done.  These wrappers
   are not uniform (the sequence node disappears when its first part has finished, the done part of an `and`
   runs once), so they are proved by a simulation relation between residual commands (Rt/RefLaws.v): exact
   equality of the whole traces - effects, events, result codes of resolutions, done flags - for every command
   and every schedule of inspections, resolutions and drops. *)
Theorem C04_then_done_right_unit : forall f c acts, no_spawn acts = true -> ref_direct (S f) (CThen c c_done) acts = ref_direct f c acts.
Proof. exact then_done_right. Qed.
Theorem C04_and_done_left_unit : forall f c acts, no_spawn acts = true -> ref_direct (S f) (CAnd c_done c) acts = ref_direct f c acts.
Proof. exact and_done_left. Qed.
Theorem C04_and_done_right_unit : forall f c acts, no_spawn acts = true -> ref_direct (S f) (CAnd c c_done) acts = ref_direct f c acts.
Proof. exact and_done_right. Qed.
Theorem C04_then_done_left_unit_traces : forall f c acts t, no_spawn acts = true ->
  ref_direct f c acts = Some t -> ref_direct (S f) (CThen c_done c) acts = Some t.
Proof. exact then_done_left_trace. Qed.
Theorem C04_all_of_nothing_is_done : forall f acts, no_spawn acts = true -> ref_direct (S f) (CAll []) acts = ref_direct (S f) c_done acts.
Proof. exact all_nil_is_done. Qed.

(* then: done is a left unit (after one step the whole state is that of c) ... *)
Theorem C04_then_done_left_unit : forall f en c n,
  run (S (S f)) en (start en (CThen c_done c)) n =
  match run (S f) en (start en c) n with
  | Some (c', n', o) => Some (c', n', mkRO (ro_effs o) (ro_evs o))
  | None => None
  end.
Proof. exact then_done_left. Qed.
(* ... and the second part does not start while the first still has a strand *)
Theorem C04_then_waits_for_first : forall f en a b n a' n1 o1,
  run f en a n = Some (a', n1, o1) -> rdone a' = false ->
  run (S f) en (RSeq a b) n = Some (RSeq a' b, n1, o1).
Proof. exact then_waits. Qed.
Theorem C04_all_done_iff_all_parts : forall l, rdone (RPar l) = true <-> forall r, In r l -> rdone r = true.
Proof. exact par_done_iff. Qed.
Theorem C04_map_effect_maps_every_output_once : forall f en k a n a' n' o,
  run f en a n = Some (a', n', o) -> run (S f) en (RMapEff k a) n = Some (RMapEff k a', n', ro_map_eff k o).
Proof. exact map_eff_outputs. Qed.
Theorem C04_map_event_maps_every_output_once : forall f en k a n a' n' o,
  run f en a n = Some (a', n', o) -> run (S f) en (RMapEv k a) n = Some (RMapEv k a', n', ro_map_ev k o).
Proof. exact map_ev_outputs. Qed.

(* done / event / notify produce exactly their single output (closed computations on the semantics) *)
Example C04_primitives :
  ref_direct RF c_done [AEffects; AEvents; AIsDone] = Some [ROEffects []; ROEvents []; RODone true] /\
  ref_direct RF (c_event 7 3) [AEffects; AEvents; AIsDone] = Some [ROEffects []; ROEvents [mkEv 7 3 []]; RODone true] /\
  ref_direct RF (c_notify 5 2) [AEffects; AEvents; AIsDone] = Some [ROEffects [mkRE 5 2 [] 0 0]; ROEvents []; RODone true].
Proof. vm_compute. repeat split. Qed.
Example C04_nonvacuous :
  ref_direct RF (CThen (c_req_send 1 7 9) (c_event 8 1)) [AEffects; AEvents; AIsDone; AResolve 1 7 0 5; AEvents; AIsDone]
  = Some [ROEffects [mkRE 1 7 [] 0 1]; ROEvents []; RODone false; ROResolve 0; ROEvents [mkEv 9 5 []; mkEv 8 1 []]; RODone true].
Proof. vm_compute. reflexivity. Qed.
