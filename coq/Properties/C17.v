(* C17 - key-value operations and results pass through unaltered.  Statements only.
   Model: coq/Wire/Kv.v (crux_kv both APIs, unwrap_*, Value conversions, image in the wire schema). *)
From Coq Require Import String List ZArith NArith Bool.
From Crux Require Import Wire.Codec Wire.Kv Wire.KvCases Wire.KvProofs.
From Crux Require Import Gen.Registry_protocol Gen.Registry_kvapp.
Import ListNotations.

(* Each call emits exactly one operation, the one that says what the call said; the call can be read
   back from it, so key, value, prefix and cursor are carried unchanged and no two calls share an
   operation. *)
Theorem C17_operation : forall a c,
  emit a c = [op_of_call c] /\ call_of_op (op_of_call c) = c /\ op_kind (op_of_call c) = call_kind c.
Proof. intros a c. repeat split; [apply emit_one|apply call_of_op_of_call|apply op_kind_call]. Qed.

Theorem C17_operation_injective : forall a c1 c2, emit a c1 = emit a c2 -> c1 = c2.
Proof. intros a c1 c2 H. rewrite !emit_one in H. inversion H. now apply op_of_call_inj. Qed.

(* For the matching response kind the app receives the shell's payload unchanged ... *)
Theorem C17_response : forall a c r,
  response_kind r = call_kind c -> deliver a c (KOk r) = Delivered (payload_of_response r).
Proof. exact deliver_matching. Qed.

(* ... in particular what the shell meant to report (a payload) is exactly what arrives, *)
Theorem C17_response_payload : forall a c p r,
  response_of_payload (call_kind c) p = Some r -> deliver a c (KOk r) = Delivered p.
Proof. exact deliver_payload. Qed.

(* two different responses of the expected kind never look the same to the app: absent vs empty,
   every byte of a value, every key of a page and the cursor are preserved *)
Theorem C17_response_injective : forall a c r1 r2,
  response_kind r1 = call_kind c -> response_kind r2 = call_kind c ->
  deliver a c (KOk r1) = deliver a c (KOk r2) -> r1 = r2.
Proof. exact deliver_injective. Qed.

Theorem C17_absent_is_not_empty : forall a k,
  deliver a (CGet k) (KOk (RGet KNone)) = Delivered (PData None) /\
  deliver a (CGet k) (KOk (RGet (KBytes []))) = Delivered (PData (Some [])) /\
  deliver a (CGet k) (KOk (RGet KNone)) <> deliver a (CGet k) (KOk (RGet (KBytes []))).
Proof. intros a k. split; [reflexivity|split; [reflexivity|discriminate]]. Qed.

(* shell-reported errors are passed through unchanged *)
Theorem C17_error : forall a c e, deliver a c (KErr e) = Failed e.
Proof. exact deliver_error. Qed.

(* a response of another kind is reported to the app as an error value naming what was expected
   (since fix e5ed299; crux_kv used to panic here), and never yields a value *)
Theorem C17_mismatch_is_an_error : forall a c r,
  response_kind r <> call_kind c -> deliver a c (KOk r) = Failed (mismatch_error (call_kind c)).
Proof. exact deliver_mismatch. Qed.

(* crux_kv never panics, whatever the shell answers *)
Theorem C17_total : forall a c r, deliver a c r <> Panicked.
Proof. exact deliver_total. Qed.

(* every outcome has exactly one origin *)
Theorem C17_outcomes : forall a c r,
  match deliver a c r with
  | Delivered p => exists x, r = KOk x /\ response_kind x = call_kind c /\ p = payload_of_response x
  | Failed e => r = KErr e \/ (exists x, r = KOk x /\ response_kind x <> call_kind c /\ e = mismatch_error (call_kind c))
  | Panicked => False
  end.
Proof. exact outcome_trichotomy. Qed.

(* Value <-> Option<Vec<u8>> are mutually inverse; From<Vec<u8>> is Some *)
Theorem C17_value_iso : forall v o,
  value_of_option (option_of_value v) = v /\ option_of_value (value_of_option o) = o.
Proof. intros v o. split; [apply value_option_value|apply option_value_option]. Qed.
Theorem C17_value_of_vec : forall b, option_of_value (value_of_vec b) = Some b.
Proof. exact value_of_vec_some. Qed.

(* the capability API and the command API emit and deliver the same *)
Theorem C17_same_both_apis : forall c r,
  emit Capability c = emit Command c /\ deliver Capability c r = deliver Command c r.
Proof. exact same_both_apis. Qed.

(* Across the serialized bridge: every operation (valid UTF-8 strings, lengths within u64 - true of
   every Rust value) is a value of the regenerated schema type, and encode-then-decode is the
   identity on operations and on results (instances of C10_roundtrip on the regenerated kv schema,
   for the protocol registry and for the test app's registry) *)
Theorem C17_bridge_operation : forall o, op_ok o = true ->
  shell_reads Registry_protocol (bridge_out Registry_protocol o) = Some o /\
  shell_reads Registry_kvapp (bridge_out Registry_kvapp o) = Some o.
Proof.
  intros o H. split; [apply (bridge_op _ op_typed_protocol)|apply (bridge_op _ op_typed_kvapp)]; exact H.
Qed.

Theorem C17_bridge_result : forall r trailing, result_ok r = true ->
  bridge_in Registry_protocol (shell_writes Registry_protocol r ++ trailing) = Some r /\
  bridge_in Registry_kvapp (shell_writes Registry_kvapp r ++ trailing) = Some r.
Proof.
  intros r t H. split; [apply (bridge_result _ result_typed_protocol)|apply (bridge_result _ result_typed_kvapp)]; exact H.
Qed.

Theorem C17_bridge_injective : forall o1 o2 r1 r2,
  op_ok o1 = true -> op_ok o2 = true -> result_ok r1 = true -> result_ok r2 = true ->
  (bridge_out Registry_kvapp o1 = bridge_out Registry_kvapp o2 -> o1 = o2) /\
  (shell_writes Registry_kvapp r1 = shell_writes Registry_kvapp r2 -> r1 = r2).
Proof.
  intros o1 o2 r1 r2 H1 H2 H3 H4. split;
    [apply (bridge_out_inj _ op_typed_kvapp)|apply (shell_writes_inj _ result_typed_kvapp)]; assumption.
Qed.

(* the whole exchange over the bridge is the image of the typed exchange *)
Theorem C17_bridge_exchange : forall a c r, op_ok (op_of_call c) = true -> result_ok r = true ->
  exchange_bridge Registry_kvapp a c r =
  (map Some (fst (exchange_typed a c r)), Some (snd (exchange_typed a c r))).
Proof. exact (exchange_bridge_typed _ op_typed_kvapp result_typed_kvapp). Qed.

(* the trace predicate evaluated on the implementation's observations holds of the model, for every
   call and every response (matching, mismatching, error) *)
Theorem C17_ok_model : forall a c r,
  verdict_typed a c r (fst (exchange_typed a c r)) 0 (seen_of (snd (exchange_typed a c r))) = 0%N.
Proof. exact model_ok_typed. Qed.

Theorem C17_model_meets_spec : forall a c r, deliver a c r = expected c r.
Proof. exact deliver_expected. Qed.

(* non-vacuity *)
Example C17_nonvacuous :
  op_ok (OSet (Cases.bytes_of_hex "6bc3a9") (Cases.bytes_of_hex "00ff")) = true /\
  result_ok (KOk (RListKeys [Cases.bytes_of_hex "61"; []] 18446744073709551615)) = true /\
  op_ok (OGet (Cases.bytes_of_hex "ff")) = false /\
  kv_effect_index Registry_kvapp = Some 1%N /\
  deliver Command (CSet [] []) (KOk (RGet KNone)) =
    Failed (EOther (Cases.bytes_of_hex "756e657870656374656420726573706f6e73653a20657870656374656420536574")).
Proof. vm_compute. repeat split. Qed.
