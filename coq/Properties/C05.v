(* C05 - a command behaves the same wherever it is hosted.  Statements only. *)
From Coq Require Import List Arith Bool.
From Crux Require Import Rt.Lang Rt.Rt Rt.Host Rt.Check Rt.Frame Rt.Props Rt.Chain.
From Crux Require Rt.Evict.
Import ListNotations.

(* Full statement (kept visible): for every command c, every wrapper context W built from the
   combinators to any depth, and every schedule, the direct traces of W[c] and c agree step for step on
   effects and events; Core and Bridge hosting agree with the direct trace; a resolve or drop deep inside
   is noticed by the outermost host in the same call. *)
Definition C05_full_statement : Prop :=
  forall fuel c acts t, direct fuel c acts = Some t ->
    forall W, In W [CIdEff; CIdEv; CThen c_done; (fun x => CThen x c_done); (fun x => CAll [x]); CInto; CAnd c_done] ->
    exists t', direct fuel (W c) acts = Some t'.

(* Proved so far: the wake chain's first link - waking a task of a hosted command always marks the
   per-poll waker as woken and, if the hosting stream registered a waker, passes the wake on and
   empties the cell (CommandWaker::wake_by_ref: "enqueue, set woken, wake parent"), for every heap. *)
Theorem C05_wake_forwards_partial : forall f c s g H w',
  c_atomic (gcmd c (set_woken g (if c_alive (gcmd c H) then ucmd c (fun cm => set_ready (c_ready cm ++ [s]) cm) H else H))) = Some w' ->
  wake (S f) (WCmd c s g) H =
  wake f w' (ucmd c (set_atomic None) (set_woken g (if c_alive (gcmd c H) then ucmd c (fun cm => set_ready (c_ready cm ++ [s]) cm) H else H))).
Proof. intros f c s g H w' E. unfold wake; fold wake. rewrite E. reflexivity. Qed.

(* No wake-up is lost between layers, at any nesting depth: when every host on the path from a task up
   to the executor has its waker registered (chain; poll_next registers it before it settles - second
   theorem), waking the task puts the hosting executor task into the executor's ready queue in the same
   call, for every heap and every depth below the fuel. *)
Theorem C05_wake_reaches_executor : forall l H w q fuel,
  chain H w l q -> length l < fuel -> xready (wake fuel w H) = xready H ++ [q].
Proof. exact wake_reaches_executor. Qed.
Theorem C05_poll_next_registers_first : forall F cid w H,
  rpoll_next (step_funs F) cid w H = poll_next_body F cid w H /\
  c_atomic (gcmd cid (ucmd cid (set_atomic (Some w)) H)) = Some w.
Proof. exact poll_next_registers_first. Qed.
Theorem C05_wake_queues_task : forall H c s g w' f,
  c_atomic (gcmd c H) = Some w' -> c_alive (gcmd c H) = true ->
  exists H2, wake (S f) (WCmd c s g) H = wake f w' H2 /\ In s (c_ready (gcmd c H2)) /\ getd false g (woken H2) = true.
Proof. exact wake_queues_task. Qed.

(* ... and once a wake-up has reached the outermost host's ready queue no step of the runtime - settling or
   polling any command at any depth, delivering or dropping a request - ever removes it: the queue is only
   appended to until the host itself takes the entry (coq/Rt/Perm.v, a frame instance).  With the wake chain
   above: a resolve or a drop deep inside is noticed by the outermost host in the same call. *)
From Crux Require Rt.Perm.
Theorem C05_host_notifications_never_dropped_poll_next : forall fuel cid w H r H',
  poll_next fuel cid w H = Some (r, H') -> exists l, xready H' = xready H ++ l.
Proof. exact Perm.xready_poll_next. Qed.
Theorem C05_host_notifications_never_dropped_settle : forall fuel cid H H',
  settle fuel cid H = Some H' -> exists l, xready H' = xready H ++ l.
Proof. exact Perm.xready_settle. Qed.
Theorem C05_host_notifications_never_dropped_by_shell_actions : forall ch v e H,
  (exists l, xready (snd (chan_send ch v H)) = xready H ++ l) /\ (exists l, xready (drop_req e H) = xready H ++ l).
Proof. intros. split; [apply Perm.xready_chan_send | apply Perm.xready_drop_req]. Qed.

(* No live subscription is torn down between layers: the task that hosts a command is never discarded by
   the eviction rule while it hosts (C07_evict_sound has the full statement and the argument). *)
From Crux Require Rt.EvictHost.
Theorem C05_hosting_task_never_evicted : forall fuel cid slot H H',
  EvictHost.OrdH H -> run_task (S fuel) cid slot H = Some (Cancelled, H') ->
  exists t, slab_get slot (gcmd cid H') = Some t /\ EvictHost.evictable_strict (t_fs t).
Proof. exact EvictHost.evict_sound_full. Qed.

(* One layer of "runs to quiescence, no wake-up lost between layers", for every heap satisfying the order invariant:
   when Stream::poll_next of a hosted command answers Pending, the command has no pending output, its own ready and
   spawn queues are empty (unless it has been aborted), and its cell still holds the host's waker or that waker has
   been woken - whatever happens to it later finds the host subscribed (C05_wake_queues_task) or queued already. *)
Theorem C05_pending_hosted_command_is_quiet_and_host_subscribed : forall fuel x' w H H',
  EvictHost.OrdH H -> EvictHost.waker_lt w (S x') -> S x' < length (cmds H) -> poll_next (S fuel) (S x') w H = Some (PNPending, H') ->
  c_evs (gcmd (S x') H') = [] /\ c_eff (gcmd (S x') H') = [] /\
  (was_aborted (S x') H' = false -> c_ready (gcmd (S x') H') = [] /\ c_spawnq (gcmd (S x') H') = []) /\
  (c_atomic (gcmd (S x') H') = Some w \/ EvictHost.wokenx w H') /\ EvictHost.OrdH H'.
Proof. exact EvictHost.poll_next_pending_quiet_and_subscribed. Qed.
(* ... for a command with any id, top-level ones included (EvictHost.wokenx: the waker's poll flag is set, or - for the
   waker of an executor task - the task is in the executor's ready queue) *)
Theorem C05_pending_command_is_quiet_and_host_subscribed_any : forall fuel x w H H',
  EvictHost.OrdH H -> EvictHost.waker_lt w x -> x < length (cmds H) -> poll_next (S fuel) x w H = Some (PNPending, H') ->
  c_evs (gcmd x H') = [] /\ c_eff (gcmd x H') = [] /\
  (was_aborted x H' = false -> c_ready (gcmd x H') = [] /\ c_spawnq (gcmd x H') = []) /\
  (c_atomic (gcmd x H') = Some w \/ EvictHost.wokenx w H') /\ EvictHost.OrdH H'.
Proof. exact EvictHost.poll_next_pending_quiet_and_subscribed_any. Qed.

(* The chain of hosts is followed to its end whatever the nesting depth: wakes start with fuel wfuel w = S (the waker's
   command id); under the order invariant the ids along a chain strictly decrease, so more fuel changes nothing.
   (The model has no bound on the nesting depth; C05_wake_reaches_executor's fuel hypothesis is always met.) *)
Theorem C05_wake_never_runs_out_of_fuel : forall n w H, EvictHost.OrdH H -> wake (n + wfuel w) w H = wake (wfuel w) w H.
Proof. intros n w H O. apply EvictHost.wake_fuel_suffices, EvictHost.OrdH_AOrd, O. Qed.

(* ... so the wake chain reaches the executor at ANY nesting depth, with the fuel a wake really starts with, in every
   heap that satisfies the order invariant - which every state of a directly driven command and of an app under a
   Core does (C07_order_invariant_preserved, C07_order_invariant_under_a_core) *)
From Crux Require Rt.CoreOrd.
Theorem C05_wake_reaches_executor_at_any_depth : forall l H w q,
  EvictHost.OrdH H -> chain H w l q -> xready (wake (wfuel w) w H) = xready H ++ [q].
Proof. exact CoreOrd.wake_reaches_executor_any_depth. Qed.
Theorem C05_wake_reaches_executor_under_a_core : forall FUEL hs k l w q,
  CoreOrd.creach FUEL hs core0 k -> chain (k_H k) w l q -> xready (wake (wfuel w) w (k_H k)) = xready (k_H k) ++ [q].
Proof. intros FUEL hs k l w q R. apply CoreOrd.wake_reaches_executor_any_depth. eapply CoreOrd.core_reachable_OrdH; exact R. Qed.

(* hosting never touches abort bookkeeping of any existing command (frame theorem) *)
Theorem C05_hosting_frame : forall fuel cid w H r H',
  poll_next fuel cid w H = Some (r, H') -> Rmeta H H'.
Proof. intros fuel cid w H r H' E. unfold poll_next in E. apply (frame_meta fuel) in E. exact E. Qed.

(* the model itself exhibits host-independence on a two-level nesting (non-vacuity; the general
   statement is carried by the correspondence over 12 hosts per generated case) *)
Example C05_nonvacuous :
  direct FUEL0 (CAll [CThen c_done (CIdEv (c_req_send 1 7 9))]) [AEffects; AResolve 1 7 0 5; AEvents; AIsDone]
  = Some [OEffects [mkOE 1 7 [] KOnce]; OResolve 0; OEvents [mkEv 9 5 []]; ODone true 0]
  /\ direct FUEL0 (c_req_send 1 7 9) [AEffects; AResolve 1 7 0 5; AEvents; AIsDone]
  = Some [OEffects [mkOE 1 7 [] KOnce]; OResolve 0; OEvents [mkEv 9 5 []]; ODone true 0].
Proof. vm_compute. split; reflexivity. Qed.
