(* C07 - a command is done exactly when nothing more can happen.  Statements only. *)
From Coq Require Import List Arith Bool.
From Crux Require Import Rt.Lang Rt.Rt Rt.Host Rt.Check Rt.Frame Rt.Props Rt.HostProps Rt.Evict.
Import ListNotations.

(* Full statement (kept visible; only parts of it are proved so far): at every settled state of every
   program and schedule, (1) a task was removed only if it finished, was cancelled, or no live cell of
   its wait-set can ever wake it again, (2) every retained task of a non-aborted command can still be
   woken, (3) is_done <-> no task and no pending output, (4) a command whose tasks wait only on shell
   requests is done once all have been resolved or dropped. *)
Definition C07_full_statement : Prop :=
  forall fuel c acts os, direct fuel c acts = Some os ->
    C07_done_sound os = true /\
    (forall drained, C07_ok (false, drained, c, [], acts, os) = true).

(* (3), soundness half, for every program and every schedule: whenever is_done() answers true the
   command holds no task (and, by definition of is_done, no pending output). *)
Theorem C07_done_implies_no_task_partial : forall fuel c acts os,
  direct fuel c acts = Some os -> C07_done_sound os = true.
Proof. exact direct_done_sound. Qed.

(* run_until_settled really settles: when it returns for a command that is not aborted, that
   command's ready queue and spawn queue are both empty (so "nothing more can happen" is judged on a
   state in which every woken task has been polled), for every fuel, heap and command id. *)
Theorem C07_settled_queues_empty : forall fuel cid H H',
  was_aborted cid H = false -> settle fuel cid H = Some H' ->
  c_ready (gcmd cid H') = [] /\ c_spawnq (gcmd cid H') = [].
Proof. exact settle_quiescent. Qed.

(* Eviction is decided exactly by "not woken during the poll and no cell holds this poll's waker":
   stated so that the model's rule cannot drift from Command::run_task. *)
Theorem C07_evict_rule : forall F cid slot H t g H2 fs',
  slab_get slot (gcmd cid H) = Some t ->
  tf_abort (gtf (t_uid t) H) || (Nat.eqb (t_uid t) (c_task0 (gcmd cid H)) && was_aborted cid H) = false ->
  g = length (woken H) ->
  rpoll F cid (WCmd cid slot g) (t_fs t)
        (mkH (chans H) (tfl H) (cmds H) (woken H ++ [false]) (xready H) (aborted H) (log H) (hout H)) = Some (Pend fs', H2) ->
  let H3 := ucmd cid (slab_set slot (mkT (t_uid t) fs')) H2 in
  rrun_task (step_funs F) cid slot H =
    Some (if getd false g (woken H3) || holds g H3 then (Suspended, H3) else (Cancelled, note B_Evict H3)).
Proof.
  intros F cid slot H t g H2 fs' Es Ea Eg Ep. cbn [step_funs rrun_task]. unfold run_task_body.
  rewrite Es, Ea. subst g. rewrite Ep. cbv zeta.
  destruct (getd false (length (woken H)) _ || holds _ _); reflexivity.
Qed.

(* (1) Eviction soundness, for every fuel, heap, command and task: when run_task discards a task as
   unwakeable (Cancelled) the task is blocked on a one-shot request whose sender is gone, on a join!/
   select! all of whose requests are gone or already answered, or is a hosting task (that leaf is
   excluded by C07_evict_sound below, under the order invariant) - never on a stream, a join handle, a pending self-wake or a request that can still be
   answered.  Rests on poll_registers: a Pending poll leaves the poll's waker registered in every open
   cell of the future's wait-set (or has set the woken flag). *)
Theorem C07_poll_registers : forall fuel c w fs H fs' H',
  poll fuel c w fs H = Some (Pend fs', H') -> post w fs' H'.
Proof. intros fuel. exact (poll_registers fuel). Qed.
Theorem C07_evict_sound_partial : forall fuel cid slot H H',
  run_task (S fuel) cid slot H = Some (Cancelled, H') ->
  exists t, slab_get slot (gcmd cid H') = Some t /\ evictable (t_fs t).
Proof. exact evict_sound. Qed.

(* (1) in full, the hosting leaf included (coq/Rt/EvictHost.v): run_task never discards a task that HOSTS a command.
   Stream::poll_next registers the host's waker in the hosted command's cell before anything runs; the only
   thing that empties the cell is a wake of one of the hosted command's tasks, which wakes the registered waker,
   and a CommandWaker marks itself woken first - so after a Pending poll the cell still holds this poll's waker
   (a clone survives) or the waker was woken, and the eviction rule answers Suspended.  What IS evicted is
   blocked on one-shot requests whose sender is gone, and on nothing else.  The one assumption is the ORDER
   invariant of the heap (a task only hosts commands created after its own command, and a command's cell only holds
   a waker of a command created earlier: nobody polls a hosted command except its host); it is proved to hold at the start of every run and to be preserved by every
   action of the host and every step of the runtime, for every program, schedule and fuel. *)
From Crux Require Rt.EvictHost.
Theorem C07_evict_sound : forall fuel cid slot H H',
  EvictHost.OrdH H -> run_task (S fuel) cid slot H = Some (Cancelled, H') ->
  exists t, slab_get slot (gcmd cid H') = Some t /\ EvictHost.evictable_strict (t_fs t).
Proof. exact EvictHost.evict_sound_full. Qed.
Theorem C07_hosting_poll_keeps_its_waker_registered : forall fuel c w fs H fs' H' x me mv k,
  c < length (cmds H) -> EvictHost.host_gt c fs -> EvictHost.waker_in c w -> EvictHost.OrdH H ->
  poll fuel c w fs H = Some (Pend fs', H') -> f_leaf fs' = LHost x me mv k ->
  c < x /\ (c_atomic (gcmd x H') = Some w \/ EvictHost.wokenx w H') /\ EvictHost.OrdH H'.
Proof. exact EvictHost.poll_registers_host. Qed.
Theorem C07_order_invariant_at_start : forall c,
  EvictHost.OrdH (snd (new_cmd (cx_name (compile c)) None [] (cx_main (compile c)) (cx_extra (compile c)) H0)).
Proof. exact EvictHost.direct_start_OrdH. Qed.
Theorem C07_order_invariant_preserved : forall fuel top st st',
  EvictHost.dreach fuel top st st' -> EvictHost.OrdH (d_H st) -> EvictHost.OrdH (d_H st').
Proof. exact EvictHost.dreach_OrdH. Qed.
Theorem C07_order_invariant_preserved_by_settle : forall fuel c H H',
  settle fuel c H = Some H' -> EvictHost.OrdH H -> EvictHost.OrdH H'.
Proof. exact EvictHost.OrdH_settle. Qed.
(* ... and of every state an app under a CORE can reach (any app, any history of shell calls, any fuel): through
   Stream::poll_next on a top-level command, QueuingExecutor::run_task / run_all, CommandSpawner::spawn, the event
   loop, resolve and drop.  So eviction soundness above applies to every state of a running core. *)
From Crux Require Rt.CoreOrd.
Theorem C07_order_invariant_under_a_core : forall FUEL hs k,
  CoreOrd.creach FUEL hs (core0) k -> EvictHost.OrdH (k_H k).
Proof. exact CoreOrd.core_reachable_OrdH. Qed.
Theorem C07_order_invariant_preserved_by_core_call : forall FUEL hs a k o k',
  cstep FUEL hs a k = Some (o, k') -> EvictHost.OrdH (k_H k) -> EvictHost.OrdH (k_H k').
Proof. exact CoreOrd.cstep_OrdH. Qed.

(* Done is stable, on the runtime model: a command that is quiet (not aborted, ready and spawn queues empty) is not
   changed AT ALL by run_until_settled; so once is_done() has answered true, every further is_done() / effects() /
   events() finds the same heap and gives the same answers, and a host polling it is told Ready(None) at once - until
   something is spawned on it or one of its wakers fires.  For every heap and every fuel >= 2 (Rt/DoneStable.v). *)
From Crux Require Rt.DoneStable.
Theorem C07_settling_a_quiet_command_changes_nothing : forall f x H,
  x < length (cmds H) -> was_aborted x H = false -> c_ready (gcmd x H) = [] -> c_spawnq (gcmd x H) = [] ->
  settle (S (S f)) x H = Some H.
Proof. exact DoneStable.settle_of_a_quiet_command_changes_nothing. Qed.
Theorem C07_done_is_stable : forall f x H,
  x < length (cmds H) -> was_aborted x H = false -> c_ready (gcmd x H) = [] -> c_spawnq (gcmd x H) = [] ->
  c_eff (gcmd x H) = [] -> c_evs (gcmd x H) = [] -> c_len (gcmd x H) = 0 ->
  DoneStable.is_done_model (S (S f)) x H = Some (true, H).
Proof. exact DoneStable.done_is_stable. Qed.
Theorem C07_done_command_reports_done_to_its_host : forall f x w H,
  x < length (cmds H) -> was_aborted x H = false -> c_ready (gcmd x H) = [] -> c_spawnq (gcmd x H) = [] ->
  c_eff (gcmd x H) = [] -> c_evs (gcmd x H) = [] -> c_len (gcmd x H) = 0 ->
  poll_next (S (S (S f))) x w H = Some (PNDone, ucmd x (set_atomic (Some w)) H).
Proof. exact DoneStable.done_command_reports_done_to_its_host. Qed.

(* A finished task stays finished and a task that is gone stays gone, through every step of the runtime on
   any command (so a JoinHandle that has once seen its task finish, or its task dropped, is never blocked
   again), for every fuel and heap. *)
From Crux Require Rt.Perm.
Theorem C07_finished_stays_finished : forall fuel cid H H' u,
  settle fuel cid H = Some H' -> tf_fin (gtf u H) = true -> tf_fin (gtf u H') = true.
Proof. intros fuel cid H H' u E. exact (Perm.pm_fin _ _ (Perm.perm_settle fuel cid H H' E) u). Qed.
Theorem C07_gone_task_stays_gone : forall fuel cid H H' u,
  settle fuel cid H = Some H' -> u < length (tfl H) -> tf_alive (gtf u H) = false -> tf_alive (gtf u H') = false.
Proof. intros fuel cid H H' u E. exact (Perm.pm_gone _ _ (Perm.perm_settle fuel cid H H' E) u). Qed.

(* On the reference semantics (coq/Rt/Ref.v, with which the implementation is compared step by step on every
   cancellation-free generated case): a command that reports done has no strand left, takes no later answer,
   is not changed by any later drop, and running it again produces nothing - done is final. *)
From Crux Require Rt.Ref Rt.RefCoreProps Rt.RefQuiesce.
Theorem C07_ref_done_is_final : forall c, Ref.rdone c = true ->
  RefCoreProps.strands_rc c = [] /\
  (forall rid v, Ref.deliver rid v c = (false, c)) /\
  (forall rid, Ref.dropreq rid c = c) /\
  (forall g en n, RefQuiesce.rdepth c <= g -> Ref.run g en c n = Some (c, n, Ref.ro0)).
Proof. exact RefQuiesce.done_is_final. Qed.

Example C07_nonvacuous :
  direct FUEL0 (c_req_send 1 0 9) [AEffects; AIsDone; ADropReq 1 0 0; AIsDone]
  = Some [OEffects [mkOE 1 0 [] KOnce]; ODone false 1; ONone; ODone true 0].
Proof. vm_compute. reflexivity. Qed.
