(* C10 - generated foreign types describe the actual wire format.  Statements only.

   [Registry_kvapp], [Registry_zoo], [Registry_malapp], [Registry_protocol] are regenerated on every check from the
   registry the real `crux_core::typegen::TypeGen` traces (coq/Gen/, harness/src/bin/wire_registry.rs);
   [encode]/[decode] are the schema-directed model of the Bridge's bincode configuration
   (coq/Wire/Codec.v).  That Rust's derived Serialize/Deserialize impls agree with [encode]/[decode]
   on the traced schema is the correspondence part of the check (engines/wire_eng.py). *)
From Coq Require Import String List ZArith NArith Bool.
From Crux Require Import Wire.Codec Wire.CodecProofs Wire.CodecFlat Wire.Cases Wire.CasesProofs.
From Crux Require Import Gen.Registry_kvapp Gen.Registry_zoo Gen.Registry_malapp Gen.Registry_protocol.
Import ListNotations.
Local Open Scope string_scope.
Local Open Scope list_scope.

(* Every value of every registered type: what Rust writes for it is read back as that value, and
   whatever follows it is left untouched (trailing bytes are allowed by the Bridge's options). *)
Theorem C10_roundtrip : forall (reg : registry) (f : format) (v : value) (rest : list byte),
  has_type reg f v -> decode reg f (encode reg f v ++ rest) = Some (v, rest).
Proof. exact roundtrip. Qed.

(* Every accepted input is the encoding of the value it is read as - the one Rust writes for that
   value - followed by exactly the bytes that are reported as left over; the value is well-typed. *)
Theorem C10_canonical : forall (reg : registry) (f : format) (b : list byte) (v : value) (rest : list byte),
  decode reg f b = Some (v, rest) -> b = encode reg f v ++ rest /\ has_type reg f v.
Proof. exact canonical. Qed.

(* Two different values never share an encoding, and no encoding is a proper prefix of another:
   a shell and the core can never disagree about which value a byte string denotes. *)
Theorem C10_encode_injective : forall reg f v1 v2,
  has_type reg f v1 -> has_type reg f v2 -> encode reg f v1 = encode reg f v2 -> v1 = v2.
Proof. exact encode_injective. Qed.

Theorem C10_prefix_free : forall reg f v1 v2 rest,
  has_type reg f v1 -> has_type reg f v2 -> encode reg f v1 = encode reg f v2 ++ rest -> v1 = v2 /\ rest = [].
Proof. exact decode_prefix_free. Qed.

(* A Registry is a flat map from names to containers; the model reads a name in the REST of the
   dependency-ordered list.  For a well-formed registry the two readings coincide: the codec of a name
   is the codec of the container registered under it with every inner name read globally again -
   pointwise equal typing, encoding and decoding. *)
Theorem C10_flat_resolution : forall reg, wf_registry reg = true -> forall n c, lookup reg n = Some c ->
  codec_eq (rcodec reg n) (ccodec (rcodec reg) c).
Proof. exact flat_resolution. Qed.

Theorem C10_unknown_name_empty : forall reg n, lookup reg n = None -> forall v, has_type_b reg (FTypeName n) v = false.
Proof. exact unknown_name_empty. Qed.

(* The regenerated registries are closed, acyclic (dependency-ordered, no name defined twice) and
   their enums are numbered 0,1,2,... : proofs about finite regenerated objects, redone on every run. *)
Theorem C10_wf_kvapp : wf_registry Registry_kvapp = true.
Proof. vm_compute. reflexivity. Qed.
Theorem C10_wf_zoo : wf_registry Registry_zoo = true.
Proof. vm_compute. reflexivity. Qed.
Theorem C10_wf_malapp : wf_registry Registry_malapp = true.
Proof. vm_compute. reflexivity. Qed.
Theorem C10_wf_protocol : wf_registry Registry_protocol = true.
Proof. vm_compute. reflexivity. Qed.

(* None of the protocol types shipped in the repository contains a map (a Rust HashMap writes its
   entries in iteration order, so for maps C10_canonical would only hold up to entry order on the Rust
   side).  The zoo test app has one on purpose. *)
Theorem C10_no_map_kvapp : registry_has_map Registry_kvapp = false.
Proof. vm_compute. reflexivity. Qed.
Theorem C10_no_map_protocol : registry_has_map Registry_protocol = false.
Proof. vm_compute. reflexivity. Qed.

(* The trace predicates evaluated on the implementation's observations hold of the model. *)
Theorem C10_ok_b_model : forall reg f v, has_type reg f v -> verdict_b reg f (encode reg f v) = 0%N.
Proof. exact model_ok_b. Qed.

Theorem C10_ok_a_model : forall reg f v, has_type reg f v ->
  let hb := encode reg f v in
  match model_a reg f hb with (acc, strict, same) => verdict_a reg f hb acc strict same = 0%N end.
Proof. exact model_ok_a. Qed.

Theorem C10_ok_c_model : forall reg f v rest, has_type reg f v -> verdict_c reg f (encode reg f v ++ rest) true = 0%N.
Proof. exact model_ok_c. Qed.

(* ... and a passing verdict on Rust-written bytes certifies them *)
Theorem C10_verdict_b_sound : forall reg f b,
  verdict_b reg f b = 0%N -> exists v, has_type reg f v /\ b = encode reg f v.
Proof. exact verdict_b_sound. Qed.

(* non-vacuity (on the harness' own test app, so that the example does not depend on how a crux type
   happens to be declared): a bridge request carrying an Ask with a non-ASCII text is well-typed, its
   encoding is the expected 27 bytes, an invalid UTF-8 text or an unknown variant is not a value *)
Definition C10_sample : value := VList [VInt 7; VEnum 0 (VList [VInt 9; VB "6bc3a9"])].
Example C10_nonvacuous :
  has_type Registry_malapp (FTypeName "Request") C10_sample /\
  encode Registry_malapp (FTypeName "Request") C10_sample =
    bytes_of_hex ("07000000" ++ "00000000" ++ "09000000" ++ "0300000000000000" ++ "6bc3a9")%string /\
  has_type_b Registry_malapp (FTypeName "Request") (VList [VInt 7; VEnum 0 (VList [VInt 9; VB "6bc3"])]) = false /\
  has_type_b Registry_malapp (FTypeName "Request") (VList [VInt 7; VEnum 9 VUnit]) = false.
Proof. vm_compute. repeat split. Qed.
