(* C18 - every timer has a unique id and at most one outcome.  Statements only.
   Model: coq/Timer/Machine.v (command API), coq/Timer/Legacy.v (legacy capability API);
   outcome automaton C18_ok: coq/Timer/Spec.v; proofs: coq/Timer/*Proofs.v. *)
From Coq Require Import List NArith Bool Arith.
From Crux Require Import Timer.Machine Timer.Spec Timer.MachineProofs.
Import ListNotations.

(* The outcome automaton accepts the model's observations for EVERY sequence of inputs to every
   number of timers (first poll, fire, clear, drop handle, drop request, answer clear, drop clear
   request, late and duplicate and wrong responses, in any interleaving), provided fewer than 2^64
   timers are started (the id counter is a wrapping usize). *)
Theorem C18_model_accepted : forall c0 xs, (c0 < USIZE)%N -> (N.of_nat (count_starts xs) <= USIZE)%N ->
  C18_ok xs (srun (sys0 c0) xs) = true.
Proof. exact model_ok. Qed.

(* the same for a single timer, any id, any kind *)
Theorem C18_model_accepted_one : forall k id xs, C18_ok1 k id xs (trun (new_timer k id) xs) = true.
Proof. exact model_ok1. Qed.

(* contract lemma of DESIGN 3.3 for the timer future: re-running the task when nothing changed
   produces nothing and changes nothing (run_until_settled is idempotent) *)
Theorem C18_poll_stable : forall t t1 e v, run_task t = (t1, e, v, false) -> run_task t1 = (t1, [], [], false).
Proof. exact run_task_settles. Qed.

Example C18_nonvacuous :
  srun (sys0 7) [SStart KAfter; SStart KAt; SOn 0 IPoll; SOn 1 IPoll; SOn 0 IClear; SOn 1 (IFire (RInstant 8));
                 SOn 1 IClear; SOn 0 IPoll; SOn 1 IPoll; SOn 0 (IAnsClr (RCleared 7)); SOn 0 IPoll]
  = [OStarted 7; OStarted 8; OPoll [ENotifyAfter 7] [] false; OPoll [ENotifyAt 8] [] false; ORes 3; ORes 0;
     ORes 3; OPoll [EClear 7] [] false; OPoll [] [Completed 8] true; ORes 0; OPoll [] [Cleared] true].
Proof. vm_compute. reflexivity. Qed.
