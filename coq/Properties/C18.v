(* C18 - every timer has a unique id and at most one outcome.  Statements only.
   Model: coq/Timer/Machine.v (command API) and coq/Timer/Legacy.v (legacy capability API);
   outcome automaton C18_ok / C18_ok1 and the vocabulary of the statements (events_of, effects_of,
   answered, app_cleared, cleared_before_start, req_dropped, good, timer_view ...): coq/Timer/Spec.v;
   proofs: coq/Timer/SpecProofs.v, MachineProofs.v, LegacyProofs.v.

   Structure: (1) the model's observations are accepted by the automaton for ALL input sequences to
   any number of timers; (2) every accepted (inputs, observations) pair - the model's, and every
   implementation trace the check finds accepted - satisfies the clauses of the property.
   "good" inputs = every shell response has the right kind and id; responses of a wrong kind or id
   make the code panic on purpose (command.rs: "a developer error"), which the model reproduces
   (Machine.poll_fut) and the automaton allows (h_bad). *)
From Coq Require Import List NArith Bool Arith.
From Crux Require Import Timer.Machine Timer.Spec Timer.SpecProofs Timer.SpecWeak Timer.MachineInv Timer.MachineProofs
  Timer.Legacy Timer.LegacyProofs Timer.Mixed Timer.MixedProofs.
Import ListNotations.

(* ------------------------------------------------------------------------------------------ *)
(* (1) the model is accepted, for every interleaving of: first poll, fire, clear, drop handle,
   drop request, answer clear, drop clear request, late / duplicate / wrong responses; several
   timers at once; notify_after and notify_at.  The id counter is a wrapping usize: fewer than
   2^64 timers. *)
Theorem C18_model_accepted : forall c0 xs, (c0 < USIZE)%N -> (N.of_nat (count_starts xs) <= USIZE)%N ->
  C18_ok xs (srun (sys0 c0) xs) = true.
Proof. exact model_ok. Qed.

Theorem C18_model_accepted_one : forall k id xs, C18_ok1 k id xs (trun (new_timer k id) xs) = true.
Proof. exact model_ok1. Qed.

(* hosted under Core, where is_done of a hosted command cannot be observed (every done flag replaced
   by "an outcome has been reported so far"): still accepted - for the model, and for every
   accepted trace *)
Theorem C18_done_flag_forgotten : forall xs os, C18_ok xs os = true -> C18_ok xs (weak [] xs os) = true.
Proof. exact weak_ok. Qed.
Theorem C18_model_accepted_core_host : forall c0 xs, (c0 < USIZE)%N -> (N.of_nat (count_starts xs) <= USIZE)%N ->
  C18_ok xs (weak [] xs (srun (sys0 c0) xs)) = true.
Proof. intros c0 xs Hc Hn. apply weak_ok. exact (model_ok c0 xs Hc Hn). Qed.

(* an accepted run of several timers: ids handed out are pairwise distinct ... *)
Theorem C18_unique_ids : forall xs os, C18_ok xs os = true -> NoDup (started_ids xs os).
Proof. intros xs os H. exact (sok_ids_nodup xs [] os H (NoDup_nil N)). Qed.

(* ... and the i-th timer started, with its own inputs and observations picked out of the
   interleaving, is accepted by the one-timer automaton *)
Theorem C18_each_timer_accepted : forall xs os i k id l, C18_ok xs os = true ->
  timer_view 0 i xs os = Some (k, id, l) -> C18_ok1 k id (map fst l) (map snd l) = true.
Proof. intros xs os i k id l H Hv. exact (sok_proj_new xs [] os i k id l H (Nat.le_0_l i) Hv). Qed.

(* ------------------------------------------------------------------------------------------ *)
(* (2) clauses satisfied by every accepted trace of one timer under good inputs *)

(* at most one outcome *)
Theorem C18_at_most_one_outcome : forall k id xs os, C18_ok1 k id xs os = true -> good k id xs = true ->
  length (events_of os) <= 1.
Proof. exact acc_one_outcome. Qed.

(* Completed only if the shell answered the timer's request (an accepted response of the right
   kind and id, earlier in the trace), and the CompletedTimerHandle carries the timer's own id *)
Theorem C18_completed_only_if_answered : forall k id xs os, C18_ok1 k id xs os = true -> good k id xs = true ->
  forall n i, In (Completed i) (events_of (firstn n os)) ->
  i = id /\ answered k id (firstn n xs) (firstn n os) = true.
Proof. exact acc_completed_only_if_answered. Qed.

(* Cleared only if the app cleared it (the first use of the handle, earlier in the trace, is clear()) *)
Theorem C18_cleared_only_if_cleared : forall k id xs os, C18_ok1 k id xs os = true -> good k id xs = true ->
  forall n, In Cleared (events_of (firstn n os)) -> app_cleared (firstn n xs) = true.
Proof. exact acc_cleared_only_if_cleared. Qed.

(* a timer cleared before its command ever ran sends nothing to the shell, ever *)
Theorem C18_clear_before_start_silent : forall k id xs os, C18_ok1 k id xs os = true -> good k id xs = true ->
  cleared_before_start xs = true -> effects_of os = [].
Proof. exact acc_clear_before_start_silent. Qed.

(* all a timer ever sends: its request at most once, then at most one Clear, for its own id *)
Theorem C18_effects_shape : forall k id xs os, C18_ok1 k id xs os = true -> good k id xs = true ->
  effects_of os = [] \/ effects_of os = [start_eff k id] \/ effects_of os = [start_eff k id; EClear id].
Proof. exact acc_effects_shape. Qed.

(* what each run of the command produces, as a function of what happened before ([hist] flags):
   after the outcome nothing; cleared-before-start: Cleared, silently; first run: the request;
   answer waiting: Completed and NO clear, even if the app has cleared meanwhile; cleared while
   pending: exactly [Clear{id}]; Clear answered: Cleared; otherwise nothing, and done only after a
   request drop (and, while waiting for the timer, only if the handle is gone too) *)
Theorem C18_poll_clauses : forall k id h e v d, chk_poll k id h e v d = true -> poll_shape k id h e v d.
Proof. exact chk_poll_shape. Qed.

(* dropping the handle never cancels the timer: the command reports done without an outcome only
   if the shell dropped one of the timer's requests *)
Theorem C18_done_only_if_request_dropped : forall k id xs os, C18_ok1 k id xs os = true -> good k id xs = true ->
  forall n, has_done (firstn n os) -> events_of (firstn n os) = [] ->
  req_dropped (firstn n xs) (firstn n os) = true.
Proof. exact acc_done_only_if_request_dropped. Qed.

(* clears, answers, drops arriving after the outcome are ignored: every later run is empty *)
Theorem C18_late_ignored : forall k id xs1 os1 xs2 os2, length xs1 = length os1 ->
  C18_ok1 k id (xs1 ++ xs2) (os1 ++ os2) = true -> good k id (xs1 ++ xs2) = true ->
  events_of os1 <> [] \/ has_done os1 -> Forall quiet_obs os2.
Proof. exact acc_late_ignored. Qed.

(* no panic under responses of the right kind and id; every input is observed *)
Theorem C18_no_panic : forall k id xs os, C18_ok1 k id xs os = true -> good k id xs = true ->
  ~ In OPanic os /\ length os = length xs.
Proof. exact acc_no_panic. Qed.

(* exactly which responses panic in the code: a response whose kind or id is not the expected one,
   consumed while the timer waits for it (anything else, including late wrong responses, is ignored) *)
Theorem C18_wrong_kind_response_panics :
  exists k id xs, good k id xs = false /\ In OPanic (trun (new_timer k id) xs).
Proof. exists KAfter, 5%N, [IPoll; IFire (RInstant 5); IPoll]. vm_compute. split; [reflexivity|]. right; right; left; reflexivity. Qed.

(* contract lemma of DESIGN 3.3 for the timer future: re-running the task when nothing changed
   produces nothing and changes nothing (run_until_settled is idempotent) *)
Theorem C18_poll_stable : forall t t1 e v, run_task t = (t1, e, v, false) -> run_task t1 = (t1, [], [], false).
Proof. exact run_task_settles. Qed.

(* ------------------------------------------------------------------------------------------ *)
(* (1)+(2) composed, for the model: every timer of every run of the model satisfies the clauses *)
Theorem C18_model_timer_clauses : forall c0 xs i k id l,
  (c0 < USIZE)%N -> (N.of_nat (count_starts xs) <= USIZE)%N ->
  timer_view 0 i xs (srun (sys0 c0) xs) = Some (k, id, l) -> good k id (map fst l) = true ->
  let ys := map fst l in let os := map snd l in
  length (events_of os) <= 1 /\
  (forall n j, In (Completed j) (events_of (firstn n os)) -> j = id /\ answered k id (firstn n ys) (firstn n os) = true) /\
  (forall n, In Cleared (events_of (firstn n os)) -> app_cleared (firstn n ys) = true) /\
  (cleared_before_start ys = true -> effects_of os = []) /\
  (effects_of os = [] \/ effects_of os = [start_eff k id] \/ effects_of os = [start_eff k id; EClear id]) /\
  (forall n, has_done (firstn n os) -> events_of (firstn n os) = [] -> req_dropped (firstn n ys) (firstn n os) = true) /\
  ~ In OPanic os.
Proof.
  intros c0 xs i k id l Hc Hn Hv Hg ys os.
  pose proof (C18_each_timer_accepted _ _ _ _ _ _ (model_ok c0 xs Hc Hn) Hv) as Hacc.
  repeat split.
  - exact (acc_one_outcome _ _ _ _ Hacc Hg).
  - exact (proj1 (acc_completed_only_if_answered _ _ _ _ Hacc Hg n j H)).
  - exact (proj2 (acc_completed_only_if_answered _ _ _ _ Hacc Hg n j H)).
  - exact (acc_cleared_only_if_cleared _ _ _ _ Hacc Hg).
  - exact (acc_clear_before_start_silent _ _ _ _ Hacc Hg).
  - exact (acc_effects_shape _ _ _ _ Hacc Hg).
  - exact (acc_done_only_if_request_dropped _ _ _ _ Hacc Hg).
  - exact (proj1 (acc_no_panic _ _ _ _ Hacc Hg)).
Qed.

Theorem C18_model_unique_ids : forall c0 xs, (c0 < USIZE)%N -> (N.of_nat (count_starts xs) <= USIZE)%N ->
  NoDup (started_ids xs (srun (sys0 c0) xs)).
Proof. intros c0 xs Hc Hn. exact (C18_unique_ids _ _ (model_ok c0 xs Hc Hn)). Qed.

(* ------------------------------------------------------------------------------------------ *)
(* (3) the legacy capability API (crux_time::Time with the global CLEARED_TIMER_IDS set), hosted
   under Core.  [lok true] is the property as stated, [lok false] tolerates the two listed classes. *)

(* Full statement: false of the faithful model (two witnesses below, both replayed on the code) *)
Definition C18_legacy_full_statement : Prop :=
  forall c0 xs, (c0 < USIZE)%N -> (N.of_nat (count_lstarts xs) <= USIZE)%N ->
  lok true [] xs (lrun (lsys0 c0) xs) = true.

(* proved: for ALL input sequences the model is accepted with the two classes tolerated ... *)
Theorem C18_legacy_model_accepted_partial : forall c0 xs, (c0 < USIZE)%N -> (N.of_nat (count_lstarts xs) <= USIZE)%N ->
  lok false [] xs (lrun (lsys0 c0) xs) = true.
Proof. exact legacy_model_ok. Qed.

(* ... and outside the classes (no clear in the update that starts the timer, no clear after the
   outcome) the property as stated holds *)
Theorem C18_legacy_strict_outside_classes_partial : forall c0 xs, (c0 < USIZE)%N -> (N.of_nat (count_lstarts xs) <= USIZE)%N ->
  lclass [] xs (lrun (lsys0 c0) xs) = 0%N -> lok true [] xs (lrun (lsys0 c0) xs) = true.
Proof. exact legacy_model_ok_strict. Qed.

Theorem C18_legacy_clear_unrequested_refuted :
  exists xs, lok true [] xs (lrun (lsys0 1) xs) = false /\ lclass [] xs (lrun (lsys0 1) xs) = 1%N
             /\ lrun (lsys0 1) xs = [LStarted 1 [EClear 1] [(0, RCleared 1)]].
Proof. exact legacy_clear_unrequested_refuted. Qed.
Theorem C18_legacy_clear_after_outcome_refuted :
  exists xs, lok true [] xs (lrun (lsys0 1) xs) = false /\ lclass [] xs (lrun (lsys0 1) xs) = 2%N
             /\ lrun (lsys0 1) xs = [LStarted 1 [ENotifyAfter 1] []; LCall 0 [] [(0, RElapsed 1)]; LCall 3 [EClear 1] []].
Proof. exact legacy_clear_after_outcome_refuted. Qed.

(* every accepted legacy trace (tolerant or strict): unique ids, at most one outcome per timer.
   (That an outcome is Cleared{id} exactly when the app cleared the timer, and otherwise is the
   shell's answer verbatim and only when the shell answered, is the LFire clause of [lok] itself.) *)
Theorem C18_legacy_unique_ids : forall b xs os, lok b [] xs os = true -> NoDup (lstarted_ids os).
Proof. intros b xs os H. exact (lok_ids_nodup b xs [] os H (NoDup_nil N)). Qed.
Theorem C18_legacy_at_most_one_outcome : forall b xs os, lok b [] xs os = true ->
  forall i, count_for i (levents_of os) <= 1.
Proof. intros b xs os H i. pose proof (lok_one_outcome b xs [] os H i) as E. unfold lbudget in E. destruct i; exact E. Qed.

(* ------------------------------------------------------------------------------------------ *)
(* (4) "an id no other timer in the PROCESS has": timers started through any interleaving of the
   entry points (command API in a direct Command, command API under Core, legacy capability API)
   draw from one counter, so all ids of a process run are pairwise distinct (below 2^64 timers) *)
Theorem C18_process_wide_unique_ids : forall c0 apis, (N.of_nat (length apis) <= USIZE)%N ->
  C18_ok_mixed (mixed_ids c0 apis) = true /\ length (mixed_ids c0 apis) = length apis.
Proof. exact mixed_ids_unique. Qed.

(* non-vacuity: two timers, one cleared while pending (Clear sent, answered, Cleared), one fired
   and cleared before it next ran (Completed, no clear) *)
Example C18_nonvacuous :
  srun (sys0 7) [SStart KAfter; SStart KAt; SOn 0 IPoll; SOn 1 IPoll; SOn 0 IClear; SOn 1 (IFire (RInstant 8));
                 SOn 1 IClear; SOn 0 IPoll; SOn 1 IPoll; SOn 0 (IAnsClr (RCleared 7)); SOn 0 IPoll]
  = [OStarted 7; OStarted 8; OPoll [ENotifyAfter 7] [] false; OPoll [ENotifyAt 8] [] false; ORes 3; ORes 0;
     ORes 3; OPoll [EClear 7] [] false; OPoll [] [Completed 8] true; ORes 0; OPoll [] [Cleared] true]
  /\ timer_view 0 1 [SStart KAfter; SStart KAt; SOn 1 IPoll] [OStarted 7; OStarted 8; OPoll [ENotifyAt 8] [] false]
     = Some (KAt, 8%N, [(IPoll, OPoll [ENotifyAt 8] [] false)]).
Proof. vm_compute. split; reflexivity. Qed.
