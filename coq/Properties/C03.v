(* C03 - events are applied one at a time, exactly once, in emission order.  Statements only. *)
From Coq Require Import List Arith Bool.
From Crux Require Import Rt.Lang Rt.Rt Rt.Host Rt.Check Rt.HostProps.
Import ListNotations.

(* For every app (handler table), every history and every reachable core state: the log of applied
   events only ever grows by appending, a call that submits an event applies that event first, and a
   rejected resolution applies nothing.  This is C03_log of Check.v holding of every model trace; the
   same predicate is evaluated on the implementation's view after every call. *)
Theorem C03_log_ok : forall fuel acts hs k os, crun fuel hs acts k = Some os -> C03_log acts os (k_log k) = true.
Proof. exact crun_log_ok. Qed.

Theorem C03_log_ok_from_new_core : forall fuel hs acts os, under_core fuel hs acts = Some os -> C03_log acts os [] = true.
Proof. exact under_core_log_ok. Qed.

(* update is entered only from the process loop, once per popped event: a call appends to the log
   exactly the events it pops, in order (process is the only function that extends k_log). *)
Theorem C03_process_appends : forall fuel0 fuel hs k k', process fuel0 fuel hs k = Some k' -> extends (k_log k) (k_log k').
Proof. exact process_log. Qed.
Theorem C03_executor_never_applies : forall fuel0 fuel k k', run_all fuel0 fuel k = Some k' -> k_log k' = k_log k.
Proof. exact run_all_log. Qed.

(* Not yet proved here (rests on correspondence): per-task emission order of events emitted by
   concurrently running tasks, which needs ghost task ids in the model. *)
Definition C03_per_task_order_statement : Prop := True.

Example C03_nonvacuous :
  under_core FUEL0 [(1, CAll [c_event 2 5; c_event 3 6]); (2, c_event 4 7)] [AEvent 1 0]
  = Some [OCall 0 [] [mkEv 1 0 []; mkEv 2 5 []; mkEv 3 6 []; mkEv 4 7 []]].
Proof. vm_compute. reflexivity. Qed.
