(* C03 - events are applied one at a time, exactly once, in emission order.  Statements only. *)
From Coq Require Import List Arith Bool.
From Crux Require Import Rt.Lang Rt.Rt Rt.Tables Rt.Host Rt.Check Rt.HostProps.
Import ListNotations.

(* For every app (handler table), every history and every reachable core state: the log of applied
   events only ever grows by appending, a call that submits an event applies that event first, and a
   rejected resolution applies nothing.  This is C03_log of Check.v holding of every model trace; the
   same predicate is evaluated on the implementation's view after every call. *)
Theorem C03_log_ok : forall fuel acts hs k os, crun fuel hs acts k = Some os -> C03_log acts os (k_log k) = true.
Proof. exact crun_log_ok. Qed.

Theorem C03_log_ok_from_new_core : forall fuel hs acts os, under_core fuel hs acts = Some os -> C03_log acts os [] = true.
Proof. exact under_core_log_ok. Qed.

(* update is entered only from the process loop, once per popped event: a call appends to the log
   exactly the events it pops, in order (process is the only function that extends k_log). *)
Theorem C03_process_appends : forall fuel0 fuel hs k k', process fuel0 fuel hs k = Some k' -> extends (k_log k) (k_log k').
Proof. exact process_log. Qed.
Theorem C03_executor_never_applies : forall fuel0 fuel k k', run_all fuel0 fuel k = Some k' -> k_log k' = k_log k.
Proof. exact run_all_log. Qed.

(* First in, first out, exactly once, between the core's event channel and update.  The PIPELINE of a core is
   the log of applied events followed by the events still waiting in the channel.  Every step of the model -
   any executor pass over any tasks, the event loop itself - only ever appends to it: the executor puts what
   tasks emit at the END of the channel, the loop moves the HEAD of the channel to the end of the log.  So
   between the channel and update no event overtakes another, none is dropped and none is applied twice; and
   since a call returns only with the channel empty (C01_core_idle_at_return), what a call applied is exactly
   what was waiting before it followed by what was emitted during it, in channel order.  For every app,
   every fuel, every core state (no reachability assumption). *)
Theorem C03_pipeline_only_grows : forall fuel0 fuel hs k k',
  process fuel0 fuel hs k = Some k' -> extends (pipeline k) (pipeline k').
Proof. exact process_pipeline. Qed.
Theorem C03_executor_only_appends_to_channel : forall fuel0 fuel k k',
  run_all fuel0 fuel k = Some k' -> extends (pipeline k) (pipeline k').
Proof. exact run_all_pipeline. Qed.
Theorem C03_applied_in_channel_order : forall fuel0 fuel hs k k', process fuel0 fuel hs k = Some k' ->
  exists emitted, k_log k' = k_log k ++ k_events k ++ emitted.
Proof. exact process_applies_in_channel_order. Qed.

(* Inside a command the same discipline, stated so that the model cannot drift from Stream::poll_next and
   CommandContext::send_event: an event is sent by appending it to the command's queue, and poll_next hands
   out exactly the HEAD of that queue (events before effects), removing it and nothing else. *)
Theorem C03_send_event_appends : forall c e H, c_evs (gcmd c (push_ev c e H)) = c_evs (gcmd c H) ++ [e].
Proof.
  intros c e H. unfold push_ev, gcmd, ucmd. cbn [cmds]. rewrite Tables.getd_updd_same. reflexivity.
Qed.
Theorem C03_poll_next_takes_the_head : forall F cid w H e H',
  rpoll_next (step_funs F) cid w H = Some (PNEvent e, H') ->
  exists H1 rest, rsettle F cid (ucmd cid (set_atomic (Some w)) H) = Some H1 /\
                  c_evs (gcmd cid H1) = e :: rest /\ H' = ucmd cid (set_evs rest) H1.
Proof.
  intros F cid w H e H' E. cbn [step_funs rpoll_next] in E. unfold poll_next_body in E.
  destruct (rsettle F cid (ucmd cid (set_atomic (Some w)) H)) as [H1|]; [|discriminate].
  destruct (c_evs (gcmd cid H1)) as [|e1 rest] eqn:EV.
  - destruct (c_eff (gcmd cid H1)); [|discriminate].
    destruct (rsettle F cid H1) as [H2|]; [|discriminate].
    destruct (c_eff (gcmd cid H2)); [destruct (c_evs (gcmd cid H2)); [destruct (Nat.eqb _ _)|]|]; discriminate.
  - exists H1, rest. assert (X : (PNEvent e1, ucmd cid (set_evs rest) H1) = (PNEvent e, H')) by congruence.
    assert (e1 = e) by congruence. assert (ucmd cid (set_evs rest) H1 = H') by congruence. subst. auto.
Qed.

(* The same pipeline discipline for apps written against the legacy capability API (update_app pushes to the same
   FIFO channel): applied ++ waiting only ever grows at its end, through any executor pass and the event loop. *)
From Crux Require Rt.Legacy Rt.LegacyProps.
Theorem C03_legacy_pipeline_only_grows : forall fuel hs k k', Legacy.lprocess fuel hs k = Some k' ->
  exists l, LegacyProps.lpipeline k' = LegacyProps.lpipeline k ++ l.
Proof. intros fuel hs k k' E. destruct (LegacyProps.lprocess_spec fuel hs k k' E) as (P & _). exact P. Qed.
Theorem C03_legacy_executor_only_appends : forall fuel k k', Legacy.lrun_all fuel k = Some k' ->
  Legacy.l_log k' = Legacy.l_log k /\ exists l, Legacy.l_events k' = Legacy.l_events k ++ l.
Proof. intros fuel k k' E. destruct (LegacyProps.lrun_all_spec fuel k k' E) as ((A & B & _) & _). split; [exact A | exact B]. Qed.

Theorem C03_legacy_log_ok : forall hs acts os, Legacy.under_legacy_core hs acts = Some os -> C03_log acts os [] = true.
Proof. exact LegacyProps.under_legacy_core_log_ok. Qed.

(* Every command's event queue (and effect queue) is a FIFO queue, at every nesting level and through EVERY function
   of the runtime - a poll of any task, Stream::poll_next of any command, run_until_settled, wakes, drop glue: the
   queue of every command changes only by losing elements at the front and gaining elements at the back
   (Rt/Fifo.v, an instance of the primitive-aware frame principle Rt/Frame2.v).  So events are never reordered or
   inserted out of order on any hop between the emitting task and the core's channel ... *)
From Crux Require Rt.Fifo.
Theorem C03_queues_are_fifo_through_settle : forall fuel cid H H' c, Rt.settle fuel cid H = Some H' ->
  Fifo.fifo (c_evs (gcmd c H)) (c_evs (gcmd c H')) /\ Fifo.fifo (c_eff (gcmd c H)) (c_eff (gcmd c H')).
Proof. intros fuel cid H H' c E. exact (Fifo.fifo_settle fuel cid H H' E c). Qed.
Theorem C03_queues_are_fifo_through_poll_next : forall fuel cid w H r H' c, poll_next fuel cid w H = Some (r, H') ->
  Fifo.fifo (c_evs (gcmd c H)) (c_evs (gcmd c H')) /\ Fifo.fifo (c_eff (gcmd c H)) (c_eff (gcmd c H')).
Proof. intros fuel cid w H r H' c E. exact (Fifo.fifo_poll_next fuel cid w H r H' E c). Qed.
Theorem C03_queues_are_fifo_through_a_poll : forall fuel c0 w fs H r H' c, poll fuel c0 w fs H = Some (r, H') ->
  Fifo.fifo (c_evs (gcmd c H)) (c_evs (gcmd c H')) /\ Fifo.fifo (c_eff (gcmd c H)) (c_eff (gcmd c H')).
Proof. intros fuel c0 w fs H r H' c E. exact (Fifo.fifo_poll fuel c0 w fs H r H' E c). Qed.
(* ... and what Stream::poll_next hands to the host is the element at the HEAD of the queue after settling (events
   before effects), and exactly that element leaves the queue. *)
Theorem C03_poll_next_hands_over_the_head : forall fuel cid w H r H',
  poll_next (S fuel) cid w H = Some (r, H') ->
  exists H1, settle fuel cid (ucmd cid (set_atomic (Some w)) H) = Some H1 /\
    match r with
    | PNEvent e => exists rest, c_evs (gcmd cid H1) = e :: rest /\ H' = ucmd cid (set_evs rest) H1
    | PNEffect e => exists rest, c_evs (gcmd cid H1) = [] /\ c_eff (gcmd cid H1) = e :: rest /\ H' = ucmd cid (set_eff rest) H1
    | _ => c_evs (gcmd cid H1) = [] /\ c_eff (gcmd cid H1) = []
    end.
Proof. exact Fifo.poll_next_hands_over_the_head. Qed.

(* ... and the hosting future appends exactly that event (through its event mapping) to the BACK of its own command's
   queue, once, and polls again: one hop of the way up keeps the order. *)
Theorem C03_host_appends_the_event_once_and_polls_again : forall f c w fs H x meff mev k e H1,
  f_leaf fs = LHost x meff mev k -> poll_next f x w H = Some (PNEvent e, H1) ->
  poll (S f) c w fs H = poll f c w fs (push_ev c (map_ev mev e) H1) /\
  c_evs (gcmd c (push_ev c (map_ev mev e) H1)) = c_evs (gcmd c H1) ++ [map_ev mev e].
Proof.
  intros f c w fs H x meff mev k e H1 EL E. split; [eapply Fifo.host_hop_event; eassumption | apply Fifo.push_ev_appends].
Qed.
(* ... and at the top the executor task moves it, in the same way, to the back of the core's event channel, whose
   pipeline only grows at its end (C03_pipeline_only_grows). *)
From Crux Require Rt.CoreOrd.
Theorem C03_executor_task_moves_the_event_to_the_back_of_the_channel : forall FUEL f q k cid e H1,
  xget q (k_slab k) = Some cid -> poll_next FUEL cid (WExec q) (k_H k) = Some (PNEvent e, H1) ->
  xrun_task FUEL (S f) q k = xrun_task FUEL f q (mkC H1 (k_spawn k) (k_slab k) (k_events k ++ [e]) (k_out k) (k_log k) (k_reqs k)).
Proof. exact CoreOrd.xrun_task_moves_event. Qed.

(* NOT proved (carried by the correspondence: the runtime model's traces, which fix the order of every log,
   are compared with the implementation's on every generated case): that two events emitted by ONE task deep
   inside nested commands keep their order on the whole way up to the core's channel.  Stating it needs the
   identity of the emitting task on every event, which the model's events do not carry; the theorems
   above are the per-queue facts (every queue on the way is FIFO through every runtime function, a hop takes the
   head and appends at the tail, the core's pipeline only grows at its end) it would be assembled from. *)

Example C03_nonvacuous :
  under_core FUEL0 [(1, CAll [c_event 2 5; c_event 3 6]); (2, c_event 4 7)] [AEvent 1 0]
  = Some [OCall 0 [] [mkEv 1 0 []; mkEv 2 5 []; mkEv 3 6 []; mkEv 4 7 []]].
Proof. vm_compute. reflexivity. Qed.
