(* C20 - the CLI's type registry is a pure, closed function of the crate description.
   Statements only; proofs are in Cli/FormatProofs.v, Cli/ClosureProofs.v, Cli/PipelineProofs.v.
   [format] models crux_cli's Formatter + the collect into a BTreeMap, [closure]/[run_crates] model the
   Filter's edge rules and the crate-by-crate loop of codegen::run (nodes = GlobalIds). *)
From Coq Require Import List String NArith Bool Permutation.
From Crux Require Import Cli.Format Cli.FormatProofs Cli.Closure Cli.ClosureProofs Cli.Pipeline Cli.PipelineProofs.
From Crux Require Gen.CliItems_bridge_echo Gen.CliItems_cat_facts Gen.CliItems_counter Gen.CliItems_hello_world
  Gen.CliItems_notes Gen.CliItems_simple_counter Gen.CliItems_tap_to_pay Gen.CliItems_crux_core
  Gen.CliItems_crux_http Gen.CliItems_crux_kv Gen.CliItems_crux_platform Gen.CliItems_crux_time Gen.CliTraced.
Import ListNotations.
Open Scope string_scope.

(* Full statement: for EVERY edge relation, with no side condition, the registry is invariant under
   renumbering and reordering, closed, and has contiguous variant indices. *)
Definition C20_full_statement : Prop :=
  forall (rho : renum) (es es' : edges),
    (forall c a b, rho c a = rho c b -> a = b) -> Permutation (rename_edges rho es) es' ->
    format es' = format es /\ closedb (format es) = true /\ contiguousb (format es) = true.

(* ---- purity ------------------------------------------------------------------------------- *)
(* The registry does not depend on the order (or multiplicity) in which the edges are visited,
   provided ids name one item each and no two different containers carry the same name. *)
Theorem C20_perm_invariant : forall es es',
  Permutation es es' -> fun_ids es -> unambiguous (containers es) -> format es = format es'.
Proof. exact format_perm_invariant. Qed.

Theorem C20_set_invariant : forall es es',
  fun_ids es -> (forall e, In e es <-> In e es') -> unambiguous (containers es) -> format es = format es'.
Proof. exact format_set_invariant. Qed.

(* It does not depend on how rustdoc numbered the items (no side condition). *)
Theorem C20_renumber_invariant : forall (rho : renum),
  (forall c a b, rho c a = rho c b -> a = b) -> forall es, format (rename_edges rho es) = format es.
Proof. exact format_renumber_invariant. Qed.

Theorem C20_pure_partial : forall (rho : renum) es es',
  (forall c a b, rho c a = rho c b -> a = b) -> fun_ids es -> unambiguous (containers es) ->
  Permutation (rename_edges rho es) es' -> format es' = format es.
Proof. exact format_pure. Qed.

(* Without the side condition the result does depend on the order: two reachable items with the same
   name and different shapes (known class name_collision). *)
Definition C20_w_a1 : item := mkItem ("m", 1%N) (Some "A") (Some "A") KStructUnit false None None None.
Definition C20_w_a2 : item := mkItem ("m", 2%N) (Some "A") (Some "A") (KStructTuple [3%N]) false None None None.
Definition C20_w_f3 : item := mkItem ("m", 3%N) (Some "0") (Some "0") KField false (Some "0") (Some (FPrim PU8)) None.
Theorem C20_collision_order_dependent_refuted :
  exists es es', Permutation es es' /\ wf_edges es = true /\ format es <> format es'.
Proof.
  exists [(C20_w_a1, C20_w_a1); (C20_w_a2, C20_w_f3)], [(C20_w_a2, C20_w_f3); (C20_w_a1, C20_w_a1)].
  split; [apply perm_swap|]. split; [vm_compute; reflexivity|]. vm_compute. discriminate.
Qed.

(* ---- the Filter's closure ------------------------------------------------------------------ *)
(* One terminated evaluation of the edge rules computes their least fixpoint ... *)
Theorem C20_closure_is_least_fixpoint : forall (F : @facts gid) fuel R,
  closure gid_eqb fuel F [] = Some R -> forall e, In e R <-> derivable F [] e.
Proof. intros F fuel R. exact (closure_spec gid_eqb gid_eqb_spec F [] fuel R). Qed.

(* An evaluation always terminates: fuel above |nodes|^2 suffices (so the "= Some R" premises of the
   theorems here are satisfiable for every fact set, and R is the least fixpoint). *)
Theorem C20_closure_terminates : forall (F : @facts gid) V fuel,
  incl (universe F) V -> List.length (list_prod V V) < fuel ->
  exists R, closure gid_eqb fuel F [] = Some R /\ forall e, In e R <-> derivable F [] e.
Proof.
  intros F V fuel HV Hlt.
  destruct (closure_terminates gid_eqb gid_eqb_spec F [] V fuel HV (NoDup_nil _) (incl_nil_l _) Hlt) as [R [HR _]].
  exists R. split; [exact HR|]. exact (closure_spec gid_eqb gid_eqb_spec F [] fuel R HR).
Qed.

Theorem C20_crate_loop_terminates : forall (cs : list (@facts gid)) V fuel,
  (forall c, In c cs -> incl (universe c) V) -> List.length (list_prod V V) < fuel ->
  exists R, run_crates gid_eqb fuel cs = Some R.
Proof.
  intros cs V fuel Hcs Hlt. unfold run_crates.
  apply (run_crates_terminates gid_eqb gid_eqb_spec V fuel Hlt cs); auto using NoDup_nil, incl_nil_l.
  intros x Hx. cbn in Hx. contradiction.
Qed.

(* ... hence the same set for every order in which items (facts) are visited ... *)
Theorem C20_closure_order_free : forall (F G : @facts gid) fuel fuel' R R',
  facts_equiv F G -> closure gid_eqb fuel F [] = Some R -> closure gid_eqb fuel' G [] = Some R' ->
  forall e, In e R <-> In e R'.
Proof.
  intros F G fuel fuel' R R' HF H1 H2.
  exact (closure_order_free gid_eqb gid_eqb_spec F G [] [] fuel fuel' R R' HF (fun x => iff_refl _) H1 H2).
Qed.

(* ... and for every order in which the crates are loaded. *)
Theorem C20_crate_order_free : forall (cs cs' : list (@facts gid)) fuel fuel' R R',
  Permutation cs cs' -> run_crates gid_eqb fuel cs = Some R -> run_crates gid_eqb fuel' cs' = Some R' ->
  forall e, In e R <-> In e R'.
Proof. intros cs cs' fuel fuel' R R'. exact (run_crates_order_free gid_eqb gid_eqb_spec fuel fuel' cs cs' R R'). Qed.

Theorem C20_crate_by_crate_is_closure : forall (cs : list (@facts gid)) fuel fuel' R R',
  run_crates gid_eqb fuel cs = Some R -> closure gid_eqb fuel' (big_union (@empty gid) cs) [] = Some R' ->
  forall e, In e R <-> In e R'.
Proof. intros cs fuel fuel' R R'. exact (run_crates_is_closure gid_eqb gid_eqb_spec fuel fuel' cs R R'). Qed.

(* ---- variant indices ------------------------------------------------------------------------ *)
Theorem C20_contiguous : forall es, wf_edges es = true -> contiguousb (format es) = true.
Proof. exact format_contiguous. Qed.

(* declaration order: the members are the declared ids filtered by presence, and the payloads of an
   enum container are their formats in that order *)
Theorem C20_declaration_order : forall x es i,
  map lid (variants x es)
  = filter (fun id => existsb (fun c => negb (it_skip c) && N.eqb id (lid c)) (children has_variant x es)) (variant_ids x)
  /\ map snd (enum_entries i (variants x es) es) = filter_map (fun v => variant_fmt v es) (variants x es).
Proof. intros x es i. split; [apply pick_decl_order | apply enum_entries_payload]. Qed.

(* ---- closedness ----------------------------------------------------------------------------- *)
(* Closed, apart from the fixed Request container's reference to Effect, whenever every type name
   used by a present field names an item that gets a container (for the Filter's output: the field's
   type is local, was followed by the edge(field, type) rule, and has a serialisable member). *)
Theorem C20_closed_partial : forall es, resolved es -> closed_mod_requestb (format es) = true.
Proof. exact format_closed. Qed.

Theorem C20_closed_with_effect : forall es, resolved es -> defines es "Effect" -> closedb (format es) = true.
Proof. exact format_closed_full. Qed.

(* The same for the whole pipeline (Filter closure, then Formatter), from hypotheses about the
   description itself: every type name used by a REACHED field is the Range of a direct Range field, or
   the name() of a local type the field points to (the edge(field, type) rule follows it), or - the
   remote-crate hypothesis - the name() of a root of one of the visited crates; and that type has
   something to hang a container on (any struct, after fix 8ae740d; an enum with a present variant). *)
Theorem C20_closed : forall d fuel G,
  tbl_fun (d_items d) -> fields_in_table d ->
  closure gid_eqb fuel (gfacts d) [] = Some G -> followed d G ->
  closed_mod_requestb (format (edges_of (d_items d) G)) = true.
Proof. exact pipeline_closed. Qed.

(* The side condition is needed.  (1) known class request_without_effect: with no Effect type the fixed
   Request container dangles - already for the empty edge relation. *)
Theorem C20_request_without_effect_refuted :
  format [] = [("Request", request_container)] /\ closedb (format []) = false.
Proof. vm_compute. split; reflexivity. Qed.

(* (2) A field whose type is a local unit struct.  Before fix: commit 8ae740d the edge rules followed the
   type (edge(field, Marker)) but a non-root unit struct never became the source of an edge, so no
   container was produced for it; the repaired rules give it an edge to itself and the registry is closed. *)
Definition C20_w_ev : item := mkItem ("m", 1%N) (Some "Event") (Some "Event") (KStructPlain [2%N]) false None None None.
Definition C20_w_fm : item := mkItem ("m", 2%N) (Some "marker") (Some "marker") KField false (Some "marker") (Some (FTypeName "Marker")) None.
Definition C20_w_mk : item := mkItem ("m", 3%N) (Some "Marker") (Some "Marker") KStructUnit false None None None.
Definition C20_w_dump : dump := mkDump [C20_w_ev; C20_w_fm; C20_w_mk] [C20_w_ev] [(C20_w_ev, C20_w_fm)] [] [(C20_w_fm, C20_w_mk)].
Theorem C20_unit_struct_field_defined :
  pipeline C20_w_dump = Some [("Event", CStruct [("marker", FTypeName "Marker")]); ("Marker", CUnitStruct); ("Request", request_container)]
  /\ option_map closed_mod_requestb (pipeline C20_w_dump) = Some true.
Proof. vm_compute. split; reflexivity. Qed.

(* non-vacuity of C20_closed: this description satisfies its hypotheses *)
Example C20_closed_nonvacuous : exists G,
  closure gid_eqb (fuel_for C20_w_dump) (gfacts C20_w_dump) [] = Some G
  /\ tbl_fun (d_items C20_w_dump) /\ fields_in_table C20_w_dump /\ followed C20_w_dump G.
Proof.
  eexists. split; [vm_compute; reflexivity|]. split; [|split].
  - intros x y Hx Hy. cbn in Hx, Hy.
    destruct Hx as [<-|[<-|[<-|[]]]]; destruct Hy as [<-|[<-|[<-|[]]]]; cbn; intros H; try reflexivity; discriminate.
  - intros e [<-|[]]. cbn. auto.
  - intros f s Hf _ Hs. cbn in Hf. destruct Hf as [<-|[<-|[<-|[]]]]; cbn in Hs; try contradiction.
    destruct Hs as [<-|[]]. right. left. exists C20_w_mk. cbn. repeat split; auto. left. reflexivity.
Qed.

(* known class childless_enum_undefined: the same with an enum that has no (unskipped) variant - the
   container rule for enums needs a variant edge. *)
Definition C20_w_en : item := mkItem ("m", 3%N) (Some "Marker") (Some "Marker") (KEnum []) false None None None.
Definition C20_w_dump2 : dump := mkDump [C20_w_ev; C20_w_fm; C20_w_en] [C20_w_ev] [(C20_w_ev, C20_w_fm)] [] [(C20_w_fm, C20_w_en)].
Theorem C20_childless_enum_refuted :
  closure gid_eqb (fuel_for C20_w_dump2) (gfacts C20_w_dump2) [] = Some (map gpair [(C20_w_ev, C20_w_fm); (C20_w_fm, C20_w_en)])
  /\ wf_edges [(C20_w_ev, C20_w_fm); (C20_w_fm, C20_w_en)] = true
  /\ pipeline C20_w_dump2 = Some [("Event", CStruct [("marker", FTypeName "Marker")]); ("Request", request_container)]
  /\ option_map closed_mod_requestb (pipeline C20_w_dump2) = Some false
  /\ known_childless [C20_w_en] [(C20_w_ev, C20_w_fm); (C20_w_fm, C20_w_en)] "Marker" = true.
Proof. vm_compute. repeat split. Qed.

(* known class renamed_type_reference: serde(rename = "Tag") on the struct: defined as Tag, referred to as Marker *)
Definition C20_w_rn : item := mkItem ("m", 3%N) (Some "Tag") (Some "Marker") (KStructTuple [4%N]) false None None None.
Definition C20_w_f4 : item := mkItem ("m", 4%N) (Some "0") (Some "0") KField false (Some "0") (Some (FPrim PU8)) None.
Definition C20_w_es3 : edges := [(C20_w_ev, C20_w_fm); (C20_w_fm, C20_w_rn); (C20_w_rn, C20_w_f4)].
Theorem C20_renamed_reference_refuted :
  wf_edges C20_w_es3 = true
  /\ format C20_w_es3 = [("Event", CStruct [("marker", FTypeName "Marker")]); ("Request", request_container); ("Tag", CNewTypeStruct (FPrim PU8))]
  /\ closed_mod_requestb (format C20_w_es3) = false /\ known_renamed (items_of C20_w_es3) "Marker" = true.
Proof. vm_compute. repeat split. Qed.

(* known class nested_range_undefined: a field of type Option<Range<u32>> *)
Definition C20_w_fr : item := mkItem ("m", 2%N) (Some "span") (Some "span") KField false (Some "span") (Some (FOption (FTypeName "Range"))) None.
Theorem C20_nested_range_refuted :
  wf_edges [(C20_w_ev, C20_w_fr)] = true
  /\ format [(C20_w_ev, C20_w_fr)] = [("Event", CStruct [("span", FOption (FTypeName "Range"))]); ("Request", request_container)]
  /\ closed_mod_requestb (format [(C20_w_ev, C20_w_fr)]) = false /\ known_nested_range [(C20_w_ev, C20_w_fr)] "Range" = true.
Proof. vm_compute. repeat split. Qed.

(* ---- regenerated descriptions --------------------------------------------------------------- *)
(* What [fixture_ok] = true establishes about a description. *)
Theorem C20_fixture_ok_sound : forall d es reg crates, fixture_ok d es reg crates = true ->
  format es = reg
  /\ closed_mod_requestb reg = true
  /\ (definesb es "Effect" = true -> closedb reg = true)
  /\ contiguousb reg = true
  /\ (forall rho es', (forall c a b, rho c a = rho c b -> a = b) ->
        Permutation (rename_edges rho es) es' -> format es' = reg)
  /\ (forall F fuel G, facts_equiv (gfacts d) F -> closure gid_eqb fuel F [] = Some G ->
        forall e, In e G <-> In e (map gpair es))
  /\ (forall order fuel G, Permutation crates order ->
        run_crates gid_eqb fuel (map (fun c => gfacts (crate_dump d c)) order) = Some G ->
        forall e, In e G <-> In e (map gpair es)).
Proof. exact fixture_ok_sound. Qed.

(* The trace predicate [C20_ok] (evaluated by the check on every registry the implementation returns
   for a transformed description) holds of the model, strictly outside class request_without_effect. *)
Theorem C20_ok_of_model : forall d es reg crates, fixture_ok d es reg crates = true ->
  forall rho es', (forall c a b, rho c a = rho c b -> a = b) -> Permutation (rename_edges rho es) es' ->
  C20_ok reg (format es') = true
  /\ (known_request_without_effect (format es') = false -> definesb es "Effect" = true ->
      C20_ok_strict reg (format es') = true).
Proof. exact ok_of_model. Qed.

(* Each bundled description, as dumped from the real Filter/Formatter on this run (vm_compute on the
   whole regenerated object). *)
Theorem C20_fixture_bridge_echo : (fixture_ok CliItems_bridge_echo.the_dump CliItems_bridge_echo.edge_list CliItems_bridge_echo.real_registry CliItems_bridge_echo.crates) = true /\ (closedb CliItems_bridge_echo.real_registry) = true.
Proof. vm_compute. split; reflexivity. Qed.
Theorem C20_fixture_cat_facts : (fixture_ok CliItems_cat_facts.the_dump CliItems_cat_facts.edge_list CliItems_cat_facts.real_registry CliItems_cat_facts.crates) = true /\ (closedb CliItems_cat_facts.real_registry) = true.
Proof. vm_compute. split; reflexivity. Qed.
Theorem C20_fixture_counter : (fixture_ok CliItems_counter.the_dump CliItems_counter.edge_list CliItems_counter.real_registry CliItems_counter.crates) = true /\ (closedb CliItems_counter.real_registry) = true.
Proof. vm_compute. split; reflexivity. Qed.
Theorem C20_fixture_hello_world : (fixture_ok CliItems_hello_world.the_dump CliItems_hello_world.edge_list CliItems_hello_world.real_registry CliItems_hello_world.crates) = true /\ (closedb CliItems_hello_world.real_registry) = true.
Proof. vm_compute. split; reflexivity. Qed.
Theorem C20_fixture_notes : (fixture_ok CliItems_notes.the_dump CliItems_notes.edge_list CliItems_notes.real_registry CliItems_notes.crates) = true /\ (closedb CliItems_notes.real_registry) = true.
Proof. vm_compute. split; reflexivity. Qed.
Theorem C20_fixture_simple_counter : (fixture_ok CliItems_simple_counter.the_dump CliItems_simple_counter.edge_list CliItems_simple_counter.real_registry CliItems_simple_counter.crates) = true /\ (closedb CliItems_simple_counter.real_registry) = true.
Proof. vm_compute. split; reflexivity. Qed.
Theorem C20_fixture_tap_to_pay : (fixture_ok CliItems_tap_to_pay.the_dump CliItems_tap_to_pay.edge_list CliItems_tap_to_pay.real_registry CliItems_tap_to_pay.crates) = true /\ (closedb CliItems_tap_to_pay.real_registry) = true.
Proof. vm_compute. split; reflexivity. Qed.
(* the capability crates as roots: no Effect type, so only closed up to Request (class request_without_effect) *)
Theorem C20_fixture_crux_core : (fixture_ok CliItems_crux_core.the_dump CliItems_crux_core.edge_list CliItems_crux_core.real_registry CliItems_crux_core.crates) = true.
Proof. vm_compute. reflexivity. Qed.
Theorem C20_fixture_crux_http : (fixture_ok CliItems_crux_http.the_dump CliItems_crux_http.edge_list CliItems_crux_http.real_registry CliItems_crux_http.crates) = true.
Proof. vm_compute. reflexivity. Qed.
Theorem C20_fixture_crux_kv : (fixture_ok CliItems_crux_kv.the_dump CliItems_crux_kv.edge_list CliItems_crux_kv.real_registry CliItems_crux_kv.crates) = true.
Proof. vm_compute. reflexivity. Qed.
Theorem C20_fixture_crux_platform : (fixture_ok CliItems_crux_platform.the_dump CliItems_crux_platform.edge_list CliItems_crux_platform.real_registry CliItems_crux_platform.crates) = true.
Proof. vm_compute. reflexivity. Qed.
Theorem C20_fixture_crux_time : (fixture_ok CliItems_crux_time.the_dump CliItems_crux_time.edge_list CliItems_crux_time.real_registry CliItems_crux_time.crates) = true.
Proof. vm_compute. reflexivity. Qed.

(* For the capability protocol types shipped in the repository (http, kv, time, platform, render) the
   registry coincides with the schema traced from their real serde implementations by
   crux_core::typegen (serde-reflection), regenerated on this run; Request is the CLI's fixed extra. *)
Theorem C20_agrees_with_tracing :
  remove_key "Request" (format CliItems_crux_http.edge_list) = CliTraced.traced_crux_http
  /\ remove_key "Request" (format CliItems_crux_kv.edge_list) = CliTraced.traced_crux_kv
  /\ remove_key "Request" (format CliItems_crux_time.edge_list) = CliTraced.traced_crux_time
  /\ remove_key "Request" (format CliItems_crux_platform.edge_list) = CliTraced.traced_crux_platform
  /\ remove_key "Request" (format CliItems_crux_core.edge_list) = CliTraced.traced_crux_core.
Proof. vm_compute. repeat split; discriminate || reflexivity. Qed.

(* the same types as they appear inside an application's registry (cat_facts uses all five) *)
Definition C20_sub_registry (small big : registry) : bool :=
  forallb (fun kc => match lookup (fst kc) big with Some c => container_eqb c (snd kc) | None => false end) small.
Theorem C20_agrees_with_tracing_in_app :
  forallb (fun t => C20_sub_registry t CliItems_cat_facts.real_registry)
          [CliTraced.traced_crux_http; CliTraced.traced_crux_kv; CliTraced.traced_crux_time;
           CliTraced.traced_crux_platform; CliTraced.traced_crux_core] = true.
Proof. vm_compute. reflexivity. Qed.

(* non-vacuity: the hypotheses of the purity theorem are met by a real description, with a
   non-trivial renumbering and a non-trivial reordering *)
Example C20_nonvacuous :
  (wf_edges CliItems_cat_facts.edge_list) = true
  /\ (unambiguousb (containers CliItems_cat_facts.edge_list)) = true
  /\ (format (rev (rename_edges (fun _ n => (7 * n + 3)%N) CliItems_cat_facts.edge_list))) = CliItems_cat_facts.real_registry
  /\ CliItems_cat_facts.edge_list <> [].
Proof. vm_compute. repeat split; discriminate || reflexivity. Qed.
