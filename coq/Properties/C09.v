(* C09 - the serialized bridge is a faithful, correctly routed image of the core.  Statements only.

   Model: coq/Bridge/Bridge.v (bridge/mod.rs, bridge/registry.rs, bridge/request_serde.rs, Effect::serialize
   from crux_macros, core/resolve.rs + Core::{process_event,resolve,view} for the typed side) over the exact
   slab 0.4.9 model coq/Bridge/Slab.v.  The app with its executor (the five core_* entry points) and the
   byte codec are Section variables: every theorem below is quantified over all of them, i.e. holds for
   every app, every command it returns, every order in which its tasks run, and every codec that can
   decode what it encodes.                                                                              *)
From Coq Require Import List Arith Bool ZArith NArith.
From Crux Require Import Base.Res Bridge.Slab Bridge.SlabProofs Bridge.Bridge Bridge.BridgeProofs
                         Bridge.RegistryProofs Bridge.ImageProofs.
Import ListNotations.

Section C09.
Variables (cstate event op value view handle B : Type).
Notation eff := (eff op handle).
Notation bytes := (list B).
Variable core_event : cstate -> event -> cstate * list eff.     (* Core::process_event *)
Variable core_process : cstate -> cstate * list eff.            (* Core::process after a resolve *)
Variable core_call : cstate -> handle -> value -> cstate * bool. (* a request's resolve callback *)
Variable core_drop : cstate -> handle -> cstate.                (* dropping a callback uncalled *)
Variable core_view : cstate -> view.                            (* Core::view *)
Variable dec_event : bytes -> option (event * bytes).
Variable dec_out : op -> bytes -> option (value * bytes).
Variable enc_reqs : list (nat * op) -> bytes.
Variable enc_view : view -> bytes.
Variable dec_reqs : bytes -> option (list (nat * op) * bytes).
Variable dec_view : bytes -> option (view * bytes).
Hypothesis reqs_law : forall l rest, dec_reqs (enc_reqs l ++ rest) = Some (l, rest).
Hypothesis view_law : forall v rest, dec_view (enc_view v ++ rest) = Some (v, rest).

Notation twin_run := (twin_run cstate event op value view handle B core_event core_process core_call
                                core_drop core_view dec_event dec_out enc_reqs enc_view).
Notation bridge_run := (bridge_run cstate event op value view handle B core_event core_process core_call
                                   core_drop core_view dec_event dec_out enc_reqs enc_view).
Notation bridge_step := (bridge_step cstate event op value view handle B core_event core_process core_call
                                     core_drop core_view dec_event dec_out enc_reqs enc_view).
Notation translate := (translate cstate event op value handle B dec_event dec_out).
Notation c_out := (c_out cstate op view handle B).

(* C09_image.  Run the bridge on ANY history of byte-level calls (events, responses with arbitrary ids
   and bodies in any order, view requests) from the initial state, and next to it a typed shell that holds
   the typed requests and mirrors each call ([translate]: the decoded event; core.resolve of the request
   registered under the id with the decoded value; nothing / dropping the request when the bridge call
   fails before reaching the core).  Then for every call of the history: a failing bridge call returns
   exactly the predicted error; otherwise the shell's decoder applied to the bytes the bridge returned
   yields exactly the typed core's effects for that call (same operations, same order), each paired with
   an id under which exactly that effect's callback is registered afterwards, ids pairwise distinct within
   the call and not in use before it; typed errors come back as the same error; the view decodes to the
   typed view.  (The only panic of the model is the u32 overflow of an id: C09_panic_only_id_overflow.) *)
Theorem C09_image : forall (c0 : cstate) (history : list (binput B)),
  let calls := twin_run (bridge_init cstate op handle c0) (typed_init cstate handle c0) history in
  (forall c, In c calls -> is_panic (c_out c) = false) ->
  Forall (decoded_image cstate op view handle B dec_reqs dec_view) calls.
Proof.
  intros c0 history. apply twin_decoded_image with (enc_reqs := enc_reqs) (enc_view := enc_view); auto.
  apply R_init.
Qed.

(* The bridge panics in no call unless an id would exceed u32 (>= 2^32 slab entries). *)
Theorem C09_panic_only_id_overflow : forall b i b' r,
  BInv cstate op handle b -> bridge_step b i = (b', r) -> is_panic r = true ->
  exists effs : list eff, (U32_LIMIT < N.of_nat (length (entries (b_reg b))) + N.of_nat (length effs))%N.
Proof. exact (step_panic_overflow cstate event op value view handle B core_event core_process core_call
               core_drop core_view dec_event dec_out enc_reqs enc_view). Qed.

(* C09_ids_distinct.  At every reachable state (any history, no bound on its length) the free-list
   invariant of the slab holds, the ghost log of Issue/Forget events is well formed, the requests
   registered according to the log are exactly the slab's occupied entries, and their ids are pairwise
   distinct. *)
Theorem C09_ids_distinct : forall (c0 : cstate) (history : list (binput B)),
  let b := snd (bridge_run (bridge_init cstate op handle c0) history) in
  wf (b_reg b) /\
  NoDup (map snd (live (b_log b))) /\
  (forall s i, In (s, i) (live (b_log b)) <-> exists e, slab_get (b_reg b) i = Some e /\ r_seq e = s).
Proof.
  intros c0 history b.
  destruct (run_inv cstate event op value view handle B core_event core_process core_call core_drop core_view
              dec_event dec_out enc_reqs enc_view history _ (BInv_init cstate op handle c0)) as (Hwf & HL & Hlw).
  split; [exact Hwf|]. split; [apply log_wf_ids_distinct; exact Hlw|exact HL].
Qed.

(* C09_id_reuse_safe.  In the log of any reachable state, between two Issues of the same id there is the
   Forget of the request the id was first issued to: an id is reissued only after its entry was removed. *)
Theorem C09_id_reuse_safe : forall (c0 : cstate) (history : list (binput B)) l1 s1 i l2 s2 l3,
  b_log (snd (bridge_run (bridge_init cstate op handle c0) history)) = l1 ++ Issue s1 i :: l2 ++ Issue s2 i :: l3 ->
  In (Forget s1 i) l2.
Proof.
  intros c0 history l1 s1 i l2 s2 l3 Hlog.
  destruct (run_inv cstate event op value view handle B core_event core_process core_call core_drop core_view
              dec_event dec_out enc_reqs enc_view history _ (BInv_init cstate op handle c0)) as (_ & _ & Hlw).
  eapply log_wf_reuse_safe; eauto.
Qed.

(* C09_routes.  If, according to the log, request number s is the one registered under id, then the slab
   has its entry under id, no other request is registered under id, and a response (id, data) whose body
   decodes to v is mirrored by the typed core.resolve of exactly request s with v (so C09_image applies
   to it) ... *)
Theorem C09_routes : forall b id s data,
  BInv cstate op handle b -> In (s, id) (live (b_log b)) ->
  exists e, slab_get (b_reg b) id = Some e /\ r_seq e = s /\
    (forall s', In (s', id) (live (b_log b)) -> s' = s) /\
    (forall v rest, dec_out (r_op e) data = Some (v, rest) -> r_kind e <> KNever ->
       translate b (BResp id data) = (Some (TResolve s v), None)).
Proof. exact (routes_translate cstate event op value handle B dec_event dec_out). Qed.

(* ... and the bridge call invokes exactly that entry's callback, once, with v, and then lets the core
   run (unless a stream's consumer is gone: FinishedMany, core not run). *)
Theorem C09_routes_core : forall b id e v rest data b' r,
  BInv cstate op handle b -> slab_get (b_reg b) id = Some e -> r_kind e <> KNever ->
  dec_out (r_op e) data = Some (v, rest) ->
  bridge_step b (BResp id data) = (b', r) -> is_panic r = false ->
  let c1 := fst (core_call (b_core b) (r_h e) v) in
  let ok := snd (core_call (b_core b) (r_h e) v) in
  match r_kind e, ok with
  | KMany, false => b_core b' = c1 /\ r = Err E_FinishedMany
  | _, _ => b_core b' = fst (core_process c1) /\ is_ok r = true
  end.
Proof. exact (routes_core cstate event op value view handle B core_event core_process core_call core_drop
               core_view dec_event dec_out enc_reqs enc_view). Qed.

(* Slab facts the above rest on (slab 0.4.9 model): insert never reaches its unreachable!(), hands out a
   key that is not in use, and the key released last is the key handed out next (LIFO). *)
Theorem C09_slab_insert_fresh : forall (V : Type) (s : slab V) v, wf s ->
  exists k s', slab_insert s v = Ok (k, s') /\ slab_get s k = None /\ slab_get s' k = Some v /\
               (forall j, j <> k -> slab_get s' j = slab_get s j) /\ wf s'.
Proof. intros V s v H. destruct (insert_spec s v H) as (s' & E & A). exists (next s), s'. tauto. Qed.

Theorem C09_slab_lifo : forall (V : Type) (s : slab V) k v v', wf s -> slab_get s k = Some v ->
  exists s' s'', slab_remove s k = Ok (v, s') /\ slab_insert s' v' = Ok (k, s'').
Proof. intros V s k v v'. apply remove_then_insert_reuses. Qed.

End C09.

(* non-vacuity: the hypotheses are satisfiable (a lawful codec and a core exist: the instance used for
   case evaluation), and a concrete history exercises issue, forget, reuse of the freed id and an error *)
From Crux Require Import Bridge.Twin Bridge.TwinProofs.
Example C09_nonvacuous :
  (forall l rest, t_dec_reqs (t_enc_reqs l ++ rest) = Some (l, rest)) /\
  (forall v rest, t_dec_view (t_enc_view v ++ rest) = Some (v, rest)) /\
  nonvacuous_run = true.
Proof. split; [exact t_reqs_law|]. split; [exact t_view_law|]. vm_compute. reflexivity. Qed.

(* The decidable trace predicate the check evaluates on the implementation's observations (image of every
   call, ids fresh / distinct / registered with the right arity, same view) holds of the model's own
   observations, for every behaviour of the core (replay tables) and every history. *)
Theorem C09_ok_holds_of_model : forall (tb : rtables) (ins : list oin),
  (forall c, In c (m_twin_run tb (map bin_of ins)) -> is_panic (c_out _ _ _ _ _ c) = false) ->
  C09_ok (map (fun p => model_obs tb (fst p) (snd p)) (combine ins (m_twin_run tb (map bin_of ins)))) = true.
Proof. exact model_C09_ok. Qed.
