(* C12 - malformed input across the boundary fails cleanly.  Statements only.
   Model: coq/Wire/Malformed.v (Bridge::process_event / handle_response over the codec of C10, with
   the core underneath as a parameter), coq/Wire/Codec.v (the decoder itself). *)
From Coq Require Import String List ZArith NArith Bool.
From Crux Require Import Wire.Codec Wire.CodecProofs Wire.Kv Wire.Malformed Wire.MalformedProofs Wire.MalformedFlat Wire.MalCases.
From Crux Require Import Gen.Registry_kvapp Gen.Registry_malapp Gen.Registry_zoo Gen.Registry_protocol.
Import ListNotations.

(* The property as stated: whatever bytes arrive, no step of any bridge over any app panics.  It is
   false of a model whose parameters (the app and capability code below the bridge) may panic on a
   value that DECODED correctly - crux_kv used to, until fix e5ed299 - so what is proved is: (1) the bridge and the
   decoder never panic by themselves - every panic is raised by app or capability code on a
   well-typed value; (2) if that code does not panic on well-typed values, nothing does; (3) with
   crux_kv's own continuation under the bridge nothing panics, unconditionally (C12_kv_total). *)
Definition C12_full_statement : Prop :=
  forall reg ev_fmt (app : Type) on_event on_output alloc_id (s : bstate app) (i : input),
    step reg ev_fmt app on_event on_output alloc_id s i <> BPanic.

(* (1) events: for EVERY byte string, a panic can only come from the app, on a schema-valid event *)
Theorem C12_event_panic_is_apps : forall reg ev_fmt (app : Type) on_event alloc_id (s : bstate app) b,
  process_event reg ev_fmt app on_event alloc_id s b = BPanic ->
  exists v rest, decode reg ev_fmt b = Some (v, rest) /\ has_type reg ev_fmt v /\
                 (on_event (core s) v = CPanic \/ on_event (core s) v = CFinished).
Proof. exact event_panic_is_apps. Qed.

(* (2) totality for events *)
Theorem C12_total_event_partial : forall reg ev_fmt (app : Type) on_event alloc_id,
  (forall a v, has_type reg ev_fmt v -> exists a' effs, on_event a v = CDone a' effs) ->
  forall (s : bstate app) b, process_event reg ev_fmt app on_event alloc_id s b <> BPanic.
Proof. exact event_total. Qed.

(* (1)/(2) for responses; the id need not even be registered (since fix 117dd88 an id nobody waits
   for is an error value; that case belongs to C02/C09 and is not claimed here) *)
Theorem C12_response_panic_is_apps : forall reg (app : Type) on_output alloc_id (s : bstate app) id b,
  handle_response reg app on_output alloc_id s id b = BPanic ->
  exists f v rest,
    (find_entry id (entries s) = Some (ROnce f) \/ find_entry id (entries s) = Some (RMany f)) /\
    decode reg f b = Some (v, rest) /\ has_type reg f v /\
    (on_output (core s) id v = CPanic \/
     (on_output (core s) id v = CFinished /\ find_entry id (entries s) = Some (ROnce f))).
Proof. exact response_panic_is_apps. Qed.

Theorem C12_total_response_partial : forall reg (app : Type) on_output alloc_id,
  (forall (s : bstate app) id f v,
      find_entry id (entries s) = Some (ROnce f) \/ find_entry id (entries s) = Some (RMany f) ->
      has_type reg f v -> on_output (core s) id v <> CPanic) ->
  (forall (s : bstate app) id f v, find_entry id (entries s) = Some (ROnce f) -> on_output (core s) id v <> CFinished) ->
  forall s id b, handle_response reg app on_output alloc_id s id b <> BPanic.
Proof. exact response_total. Qed.

(* A rejected event leaves the whole bridge state - app and registry - EQUAL, and it was rejected
   because it does not decode. *)
Theorem C12_rejected_event_noop : forall reg ev_fmt (app : Type) on_event alloc_id (s s' : bstate app) b e,
  process_event reg ev_fmt app on_event alloc_id s b = BErr e s' ->
  s' = s /\ e = EDeserializeEvent /\ decode reg ev_fmt b = None.
Proof. intros; eapply rejected_event_noop; eauto. Qed.

(* A rejected response leaves the app untouched and every other registry entry as it was ... *)
Theorem C12_rejected_response_local : forall reg (app : Type) on_output alloc_id (s s' : bstate app) id b e,
  handle_response reg app on_output alloc_id s id b = BErr e s' ->
  core s' = core s /\ forall id', id' <> id -> find_entry id' (entries s') = find_entry id' (entries s).
Proof. intros; eapply rejected_response_local; eauto. Qed.

(* ... for a stream (or an id nobody waits for) it changes nothing at all ... *)
Theorem C12_rejected_response_noop : forall reg (app : Type) on_output alloc_id (s s' : bstate app) id b e,
  (find_entry id (entries s) = None \/ exists f, find_entry id (entries s) = Some (RMany f)) ->
  handle_response reg app on_output alloc_id s id b = BErr e s' -> s' = s.
Proof. intros; eapply rejected_response_noop; eauto. Qed.

(* ... and for a one-shot request exactly that request is gone (the closure was consumed before the
   bytes were looked at: request_serde.rs `ResolveSerialized::resolve`). *)
Theorem C12_rejected_response_once : forall reg (app : Type) on_output alloc_id (s s' : bstate app) id b e f,
  find_entry id (entries s) = Some (ROnce f) ->
  handle_response reg app on_output alloc_id s id b = BErr e s' ->
  e = EDeserializeOutput /\ decode reg f b = None /\
  s' = {| core := core s; entries := remove_entry id (entries s) |} /\ find_entry id (entries s') = None.
Proof. intros; eapply rejected_response_once; eauto. Qed.

(* The rest of any history behaves as in a twin that never saw an input which was rejected without a
   state change (every rejected event; every rejected response to a stream). *)
Theorem C12_twin : forall reg ev_fmt (app : Type) on_event on_output alloc_id (s s1 : bstate app) pre i post e,
  final reg ev_fmt app on_event on_output alloc_id s pre = Some s1 ->
  step reg ev_fmt app on_event on_output alloc_id s1 i = BErr e s1 ->
  run reg ev_fmt app on_event on_output alloc_id s (pre ++ i :: post) =
    run reg ev_fmt app on_event on_output alloc_id s pre ++ BErr e s1 :: run reg ev_fmt app on_event on_output alloc_id s1 post /\
  run reg ev_fmt app on_event on_output alloc_id s (pre ++ post) =
    run reg ev_fmt app on_event on_output alloc_id s pre ++ run reg ev_fmt app on_event on_output alloc_id s1 post.
Proof. intros; eapply skip_rejected; eauto. Qed.
(* Full twin statement for a rejected response to a one-shot request (the twins' registries then
   differ in that one entry, and the slab hands its id out again, so the two runs agree only up to a
   renaming of request ids): carried by the twin correspondence on every run, not proved. *)
Definition C12_twin_once_full_statement : Prop :=
  forall reg ev_fmt (app : Type) on_event on_output alloc_id (s : bstate app) id b e s' f post,
    find_entry id (entries s) = Some (ROnce f) ->
    handle_response reg app on_output alloc_id s id b = BErr e s' ->
    (forall j, In j post -> match j with IResponse id' _ => id' <> id | IEvent _ => True end) ->
    exists rename : N -> N,
      map (fun r => match r with BOk _ out => Some (map snd out) | _ => None end) (run reg ev_fmt app on_event on_output alloc_id s' post) =
      map (fun r => match r with BOk _ out => Some (map snd out) | _ => None end)
          (run reg ev_fmt app on_event on_output alloc_id s
               (map (fun j => match j with IResponse id' x => IResponse (rename id') x | IEvent x => IEvent x end) post)).

(* The decoder itself: consumes a prefix of its input, ... *)
Theorem C12_decode_consumes : forall reg f b v rest,
  decode reg f b = Some (v, rest) -> (length rest <= length b)%nat /\ b = encode reg f v ++ rest.
Proof. intros reg f b v rest H. split; [exact (decode_consumes _ _ _ _ _ H)|apply (canonical _ _ _ _ _ H)]. Qed.

Theorem C12_decode_min : forall reg f b v rest,
  decode reg f b = Some (v, rest) -> (length rest + fmin (rmin reg) f <= length b)%nat.
Proof. exact decode_min. Qed.

(* ... cannot be made to loop by a length prefix: a sequence whose elements occupy at least one byte
   makes at most |b|+1 element attempts (and at most as many as the prefix says), whatever the
   prefix - 2^64-1 included, ... *)
Theorem C12_seq_attempts_bounded : forall reg f n b,
  (0 < fmin (rmin reg) f)%nat ->
  (seq_attempts (cdec (fcodec (rcodec reg) f)) n b <= length b + 1)%nat /\
  (seq_attempts (cdec (fcodec (rcodec reg) f)) n b <= N.to_nat n)%nat.
Proof. intros reg f n b H. apply seq_attempts_bound. now apply nonempty_consuming. Qed.

(* ... every sequence of every regenerated registry is of that kind (no Vec of zero-sized things), *)
Theorem C12_no_zst_seq_kvapp : no_zst_seq Registry_kvapp = true.
Proof. vm_compute. reflexivity. Qed.
Theorem C12_no_zst_seq_malapp : no_zst_seq Registry_malapp = true.
Proof. vm_compute. reflexivity. Qed.
Theorem C12_no_zst_seq_zoo : no_zst_seq Registry_zoo = true.
Proof. vm_compute. reflexivity. Qed.
Theorem C12_no_zst_seq_protocol : no_zst_seq Registry_protocol = true.
Proof. vm_compute. reflexivity. Qed.

(* ([no_zst_seq] looks sizes up along the dependency order; for a well-formed registry that is the
   same as the global reading: every registered container passes the check with the global sizes,
   i.e. every sequence / map anywhere in it has elements of at least one byte - the premise of
   C12_seq_attempts_bounded) *)
Theorem C12_no_zst_seq_flat : forall reg, wf_registry reg = true -> no_zst_seq reg = true ->
  forall n c, lookup reg n = Some c -> cseq_ok (rmin reg) c = true.
Proof. exact no_zst_seq_flat. Qed.

(* ... a string / byte-buffer length larger than what is left is refused before anything is taken, and
   what is taken is part of the input, ... *)
Theorem C12_length_checked_first : forall b n r,
  u64_dec b = Some (n, r) -> (N.of_nat (length r) < n)%N -> take_bytes b = None.
Proof. exact take_bytes_checked. Qed.
Theorem C12_taken_is_input : forall b bs r, take_bytes b = Some (bs, r) -> (length bs + 8 + length r = length b)%nat.
Proof. exact take_bytes_len. Qed.

(* ... and what bincode 1.3.3 + serde 1.0.219 reserve up front for a sequence is capped at 1 MiB
   whatever the prefix says (NOT at |b|: a 13-byte input can cost a 1 MiB allocation - observed). *)
Theorem C12_seq_prealloc_capped : forall hint elem_size,
  (cautious hint elem_size * elem_size <= MAX_PREALLOC_BYTES)%N /\ (cautious hint elem_size <= hint)%N.
Proof. intros h e. split; [apply cautious_bound|apply cautious_le_hint]. Qed.
(* the full allocation statement (every allocation of a whole decode, elements included) is about
   Rust's in-memory sizes, which the schema does not determine: measured by the counting allocator *)
Definition C12_decode_bounded_full_statement : Prop :=
  forall (alloc_trace : registry -> format -> list byte -> list N) reg f b x,
    In x (alloc_trace reg f b) -> (x <= N.max MAX_PREALLOC_BYTES (16 * N.of_nat (length b)))%N.

(* crux_kv under the bridge (the instance that used to be a known class): for EVERY byte string offered
   as the response to a pending key-value call made through crux_kv, handle_response returns - a value
   or an error, never a panic.  Before fix e5ed299 the 12 zero bytes `Ok{Get{None}}` answering a Set
   panicked; now the app is told KeyValueError::Other "unexpected response: expected Set". *)
Theorem C12_kv_total : forall reg c b, kv_respond reg c b <> BPanic.
Proof. exact kv_respond_total. Qed.

Theorem C12_kv_mismatch_is_an_error : forall reg c b x,
  bridge_in reg b = Some (KOk x) -> response_kind x <> call_kind c ->
  exists r, bridge_in reg b = Some r /\ deliver Command c r = Failed (mismatch_error (call_kind c)).
Proof. exact kv_respond_mismatch. Qed.

Example C12_kv_former_witness :
  kv_respond Registry_kvapp (CSet [] []) (repeat Coq.Init.Byte.x00 12) = BOk {| core := tt; entries := [] |} [] /\
  option_map (deliver Command (CSet [] [])) (bridge_in Registry_kvapp (repeat Coq.Init.Byte.x00 12)) = Some (Failed (mismatch_error KSet)).
Proof. vm_compute. split; reflexivity. Qed.

(* non-vacuity: a truncated event is rejected by the model, an extended one is accepted with the
   extension left over, a huge length prefix is rejected *)
Example C12_nonvacuous :
  decode Registry_malapp (FTypeName "MalEvent") (Cases.bytes_of_hex "00000000070000000100000000000000") = None /\
  decode Registry_malapp (FTypeName "MalEvent") (Cases.bytes_of_hex "0000000007000000010000000000000041ffff")
    = Some (VEnum 0 (VList [VInt 7; VBytes (Cases.bytes_of_hex "41")]), Cases.bytes_of_hex "ffff") /\
  decode Registry_malapp (FTypeName "MalEvent") (Cases.bytes_of_hex "0000000007000000ffffffffffffffff41") = None /\
  predict Registry_malapp 3 FUnit [] = false.
Proof. vm_compute. repeat split. Qed.
