(* C02 - a response reaches exactly the task that asked, with the declared arity.  Statements only.

   Model: coq/Bridge/Resolve.v - Resolve::{Never,Once,Many}::resolve (core/resolve.rs, Once swapped for Never
   before its closure runs), Request::resolve / Core::resolve (core/request.rs, core/mod.rs after fix f4ce20d:
   the error is returned in every build profile), the private channel per request of command/context.rs and the
   Weak-referenced shared state of capability/shell_request.rs / shell_stream.rs (both: deliver iff the consuming
   future is alive), ResolveSerialized::resolve and Resolve::deserializing (bridge/request_serde.rs), and the
   registry's answer for an id without entry (bridge/registry.rs after fix 117dd88).
   A heap holds the requests (callback, issuing task) and, separately, the channels (buffer, receiver alive,
   sender alive, ghost: accepted values, delivered values, owner task).  All theorems are about ARBITRARY
   heaps satisfying the invariant [Inv], which holds at every state reachable by ANY sequence of actions
   (issue by any task, typed or serialized resolution of any request with any value, repeated and late
   resolutions, dropped requests, polls, abort, drop of the command): no bound on the number of
   simultaneously outstanding requests, equal operations are indistinguishable to the model anyway.       *)
From Coq Require Import List Arith Bool ZArith NArith.
From Crux Require Import Base.Res Bridge.Slab Bridge.SlabProofs Bridge.Bridge Bridge.Resolve Bridge.ResolveProofs
                         Bridge.Arity Bridge.ArityProofs Bridge.Coherence.
Import ListNotations.

(* Invariant at every reachable state: (1) every callback points to the live sender of a channel whose
   receiver is held by the task that issued the request, (2) channel privacy: the sender of a channel occurs
   in the callback of at most one request, (3) for every channel: delivered is a prefix of accepted, and while
   the consumer is alive accepted = delivered ++ buffered (each accepted value is delivered at most once, in
   order, none invented); a one-shot channel accepts at most one value. *)
Theorem C02_invariant_reachable : forall acts, Inv (fst (run heap_empty acts)).
Proof. intros acts. apply run_Inv. apply Inv_empty. Qed.

(* Never (a notification, or a one-shot that was already resolved): every resolution is rejected with
   ResolveError::Never and the state is unchanged. *)
Theorem C02_never : forall h rid q v,
  nth_error (h_reqs h) rid = Some q -> q_res q = RNever ->
  step h (AResolve rid v) = (h, mkOut (Err E_Never) [] None).
Proof. exact resolve_never. Qed.

(* Once: the first resolution returns Ok; the callback is consumed (the request becomes Never); the value
   is appended to the request's own channel - owned by the task that issued the request - exactly when its
   consumer is still alive, and no other request or channel changes. *)
Theorem C02_once : forall h rid q c v,
  Inv h -> nth_error (h_reqs h) rid = Some q -> q_res q = ROnce c ->
  exists ch, nth_error (h_chans h) c = Some ch /\ ch_owner ch = q_owner q /\ ch_stream ch = false /\
    let h' := fst (step h (AResolve rid v)) in
    snd (step h (AResolve rid v)) = mkOut (Ok tt) [] None /\
    nth_error (h_reqs h') rid = Some (mkCell RNever (q_owner q) (q_kind q)) /\
    (forall r', r' <> rid -> nth_error (h_reqs h') r' = nth_error (h_reqs h) r') /\
    nth_error (h_chans h') c = Some (if ch_rx ch then closed (sent ch v) else closed ch) /\
    (forall c', c' <> c -> nth_error (h_chans h') c' = nth_error (h_chans h) c').
Proof. exact resolve_once. Qed.

(* ... and every later resolution of it, after any further history, is rejected with an error and has no
   effect at all (state unchanged). *)
Theorem C02_once_second_rejected : forall h rid q c v acts v',
  Inv h -> nth_error (h_reqs h) rid = Some q -> q_res q = ROnce c ->
  let h1 := fst (run (fst (step h (AResolve rid v))) acts) in
  step h1 (AResolve rid v') = (h1, mkOut (Err E_Never) [] None).
Proof. exact resolve_once_then_rejected. Qed.

(* Many: while the consumer is alive every resolution returns Ok and appends the value to the request's own
   channel (FIFO); once the consumer is gone the resolution returns FinishedMany and nothing changes. *)
Theorem C02_many : forall h rid q c v,
  Inv h -> nth_error (h_reqs h) rid = Some q -> q_res q = RMany c ->
  exists ch, nth_error (h_chans h) c = Some ch /\ ch_owner ch = q_owner q /\ ch_stream ch = true /\
    if ch_rx ch then
      step h (AResolve rid v) = (mkHeap (h_reqs h) (upd (h_chans h) c (sent ch v)) (h_aborted h), mkOut (Ok tt) [] None)
    else step h (AResolve rid v) = (h, mkOut (Err E_FinishedMany) [] None).
Proof. exact resolve_many. Qed.

(* After the consumer of a stream has ended and been cleaned up, every resolution, however late, is rejected
   with FinishedMany, changes nothing, and the consumer's delivered values stay what they were. *)
Theorem C02_many_finished : forall h rid q c ch acts v,
  Inv h -> nth_error (h_reqs h) rid = Some q -> q_res q = RMany c ->
  nth_error (h_chans h) c = Some ch -> ch_rx ch = false ->
  (forall a, In a acts -> a <> ADropReq rid) ->
  let h1 := fst (run h acts) in
  step h1 (AResolve rid v) = (h1, mkOut (Err E_FinishedMany) [] None) /\
  exists ch', nth_error (h_chans h1) c = Some ch' /\ ch_del ch' = ch_del ch.
Proof. exact resolve_many_finished. Qed.

(* Routing, part 1: a value enters a channel only as the argument of a (typed or serialized) resolution of
   the one request whose callback owns that channel's sender, and that request was issued by the task that
   holds the channel's receiver. *)
Theorem C02_routing : forall h a c ch ch',
  Inv h -> nth_error (h_chans h) c = Some ch -> nth_error (h_chans (fst (step h a))) c = Some ch' ->
  ch_acc ch' <> ch_acc ch ->
  exists rid q v, (a = AResolve rid v \/ a = ASerResolve rid (Some v)) /\
                  nth_error (h_reqs h) rid = Some q /\ closure_of (q_res q) = Some c /\
                  q_owner q = ch_owner ch /\ ch_rx ch = true /\
                  ch_acc ch' = ch_acc ch ++ [v] /\ ch_buf ch' = ch_buf ch ++ [v].
Proof. exact accepted_only_via_own_request. Qed.

(* Routing, part 2: a continuation event (task o received v) arises only when the tasks run, and v is then
   among the next buffered values of a channel whose receiver o holds, moved - in order - from buffered to
   delivered (or it is the end-of-stream mark). With the invariant (delivered is a prefix of accepted) and part 1:
   a task receives exactly the values resolved into requests it issued, unchanged, each once, in order. *)
Theorem C02_delivery : forall h a o v,
  Inv h -> In (o, v) (o_events (snd (step h a))) ->
  a = APoll /\ exists c ch ch', nth_error (h_chans h) c = Some ch /\ nth_error (h_chans (fst (step h a))) c = Some ch' /\
     ch_owner ch = o /\ ch_rx ch = true /\ ch_acc ch' = ch_acc ch /\
     exists got rest, ch_del ch' = ch_del ch ++ got /\ ch_buf ch = got ++ rest /\ (In v got \/ v = ENDED).
Proof. exact events_from_own_channel. Qed.

(* The serialized callback (ResolveSerialized built by Resolve::deserializing) is the typed callback composed
   with decoding, for the three arities ... *)
Theorem C02_serialized_mirrors : forall r chs v,
  sresolve_step (deserializing r) chs (Some v) =
  let '(r', chs', res) := resolve_step r chs v in (deserializing r', chs', res).
Proof. exact serialized_mirrors. Qed.

(* ... and for an undecodable body: Never still answers Never; a one-shot is consumed (its callback dropped
   uncalled) and reports DeserializeOutput; a stream reports DeserializeOutput and stays as it was. *)
Theorem C02_serialized_undecodable : forall r chs,
  sresolve_step (deserializing r) chs None =
  match r with
  | RNever => (SNever, chs, Err E_Never)
  | ROnce c => (SNever, chan_close_tx chs c, Err E_DeserializeOutput)
  | RMany c => (SMany c, chs, Err E_DeserializeOutput)
  end.
Proof. exact serialized_undecodable. Qed.

(* The registry-level model of the serialized path used for C09/C13 (Bridge.resume, abstract core) and the
   heap-level model above answer every response identically: the result is a function of the entry's arity,
   of whether the body decodes, and of whether the consumer is alive (core_call's answer there, the
   channel's receiver here). *)
Theorem C02_models_agree_heap : forall k c chs ch (body : option N),
  nth_error chs c = Some ch ->
  snd (sresolve_step (deserializing (closure_for k c)) chs body) =
  response_code k (match body with Some _ => true | None => false end) (ch_rx ch).
Proof. exact heap_response_code. Qed.

Theorem C02_models_agree_bridge : forall (cstate op value handle B : Type)
  (core_call : cstate -> handle -> value -> cstate * bool) (core_drop : cstate -> handle -> cstate)
  (dec_out : op -> list B -> option (value * list B)) (b : bstate cstate op handle) id data e b' r,
  wf (b_reg b) -> slab_get (b_reg b) id = Some e ->
  resume cstate op value handle B core_call core_drop dec_out b id data = (b', r) ->
  r = response_code (r_kind e)
        (match dec_out (r_op e) data with Some _ => true | None => false end)
        (match dec_out (r_op e) data with Some (v, _) => snd (core_call (b_core b) (r_h e) v) | None => true end).
Proof. exact bridge_response_code. Qed.

(* The trace predicate evaluated on the implementation's observations holds of the model's own trace. *)
Theorem C02_ok_holds_of_model : forall auto legacy steps,
  C02_ok (auto, legacy, model_trace auto legacy heap_empty steps) = true.
Proof. exact model_C02_ok. Qed.

(* non-vacuity: a one-shot resolved twice, a stream whose consumer takes two values resolved three times *)
Example C02_nonvacuous :
  map (fun o => (res_code (o_res o), o_events o))
      (snd (run heap_empty [AIssue 7 KOnce None false; AIssue 8 KMany (Some 2) true; AResolve 0 11; AResolve 0 12; APoll;
                            AResolve 1 21; AResolve 1 22; AResolve 1 23; APoll; AResolve 1 24]))
  = [(0%Z, []); (0%Z, []); (0%Z, []); (3%Z, []); (0%Z, [(7, 11%N)]);
     (0%Z, []); (0%Z, []); (0%Z, []); (0%Z, [(8, 21%N); (8, 22%N); (8, ENDED)]); (4%Z, [])].
Proof. vm_compute. reflexivity. Qed.

(* ---------------------------------------------------------------------------------------------------------
   Second model: whole apps under a Core, in the reference semantics coq/Rt/Ref.v + RefCore.v (handler
   tables over the task/command language of coq/Rt/Lang.v: requests, streams, joins, select, spawned
   tasks, legacy capability requests awaited in command tasks, any nesting of combinators; histories of
   events, resolutions and drops).  The implementation is compared with this semantics call by call on
   every run (RC_ok, engines/rt_eng.py rc_stage).  Proved for every app, every history and every state the
   history reaches: request ids are never reused, at most one waiter exists per id, and a resolution
   is received - unchanged, in the variable the task named - by exactly the strand that issued the request,
   while no other strand of any command of the app changes. *)
(* In the function-for-function runtime model (coq/Rt/Rt.v): a value handed to a request's resolve closure goes
   into that request's OWN channel - it is appended to that channel's buffer when the awaiting future is alive,
   refused when it is gone - and the buffer of every other channel is left as it was, whatever wake-ups the
   delivery causes (waking touches no channel at all); closing the sender afterwards (Resolve::Once is consumed)
   changes no buffer either.  For every heap. *)
From Crux Require Rt.Perm.
Theorem C02_rt_value_goes_into_the_requests_own_channel : forall ch v H c,
  Rt.ch_buf (Rt.gch c (snd (Rt.chan_send ch v H))) =
  if Nat.eqb c ch then (if Rt.ch_rx (Rt.gch ch H) then Rt.ch_buf (Rt.gch ch H) ++ [v] else Rt.ch_buf (Rt.gch ch H))
  else Rt.ch_buf (Rt.gch c H).
Proof. exact Perm.chan_send_routes. Qed.
Theorem C02_rt_waking_touches_no_channel : forall fuel w H, Rt.chans (Rt.wake fuel w H) = Rt.chans H.
Proof. exact Perm.wake_chans. Qed.
Theorem C02_rt_consuming_the_sender_changes_no_buffer : forall ch H c,
  Rt.ch_buf (Rt.gch c (Rt.chan_drop_tx ch H)) = Rt.ch_buf (Rt.gch c H).
Proof. exact Perm.chan_drop_tx_keeps_buffers. Qed.

From Crux Require Rt.Lang Rt.Rt Rt.Host Rt.Ref Rt.RefCore Rt.RefCoreProps.

Theorem C02_ref_one_waiter_per_request : forall hs st,
  RefCoreProps.reach hs st ->
  forall rid, RefCoreProps.cw_cmds rid (RefCore.ks_cmds st) <= 1 /\
              (1 <= RefCoreProps.cw_cmds rid (RefCore.ks_cmds st) -> rid < RefCore.ks_n st).
Proof. exact RefCoreProps.reach_Inv. Qed.

Theorem C02_ref_ids_fresh : forall hs st,
  RefCoreProps.reach hs st -> forall rid, RefCore.ks_n st <= rid -> RefCoreProps.cw_cmds rid (RefCore.ks_cmds st) = 0.
Proof. exact RefCoreProps.fresh_ids. Qed.

Theorem C02_ref_delivery_exact : forall hs st pre s post rid x k v,
  RefCoreProps.reach hs st ->
  RefCoreProps.strands_of (RefCore.ks_cmds st) = pre ++ s :: post ->
  Ref.s_leaf s = Ref.RReq rid x k ->
  RefCoreProps.strands_of (snd (RefCore.kdeliver rid v (RefCore.ks_cmds st))) =
  pre ++ Ref.mkRS (Ref.s_uid s) (Rt.setv x v (Ref.s_env s)) (Ref.RRun k) (Ref.s_stack s) :: post.
Proof. exact RefCoreProps.delivery_exact. Qed.

(* non-vacuity: an app with two look-alike handlers; after two events two strands wait on two different
   ids for the same operation; the hypotheses of the delivery theorem hold of the second one *)
Definition C02_demo_app : Host.handlers := [(1, Lang.CNew (Lang.TReq 5 (Lang.K 0) 1 (Lang.TEmit 100 (Lang.V 1) Lang.TRet)) [])].
Definition C02_demo_after (st : RefCore.kst) : RefCore.kst :=
  match RefCore.kstep C02_demo_app (Lang.AEvent 1 7) st with Some (_, s) => s | None => st end.
Definition C02_demo_st1 : RefCore.kst := Eval vm_compute in C02_demo_after RefCore.ks0.
Definition C02_demo_st2 : RefCore.kst := Eval vm_compute in C02_demo_after C02_demo_st1.
Example C02_ref_nonvacuous :
  exists s0 s1, RefCoreProps.reach C02_demo_app C02_demo_st2 /\
    RefCoreProps.strands_of (RefCore.ks_cmds C02_demo_st2) = [s0] ++ s1 :: [] /\
    Ref.s_leaf s0 = Ref.RReq 0 1 (Lang.TEmit 100 (Lang.V 1) Lang.TRet) /\
    Ref.s_leaf s1 = Ref.RReq 1 1 (Lang.TEmit 100 (Lang.V 1) Lang.TRet).
Proof.
  exists (Ref.mkRS 0 [7] (Ref.RReq 0 1 (Lang.TEmit 100 (Lang.V 1) Lang.TRet)) []).
  exists (Ref.mkRS 0 [7] (Ref.RReq 1 1 (Lang.TEmit 100 (Lang.V 1) Lang.TRet)) []).
  split; [|split; [|split]]; try reflexivity.
  apply (RefCoreProps.reach_step' _ (Lang.AEvent 1 7) C02_demo_st1); [|vm_compute; reflexivity].
  apply (RefCoreProps.reach_step' _ (Lang.AEvent 1 7) RefCore.ks0); [apply RefCoreProps.reach0 | vm_compute; reflexivity].
Qed.
