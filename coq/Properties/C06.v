(* C06 - cancellation is final, contained, and safe against late responses.  Statements only. *)
From Coq Require Import List Arith Bool.
From Crux Require Import Rt.Lang Rt.Rt Rt.Host Rt.Check Rt.Frame Rt.Props Rt.Silent Rt.AbortTop Rt.Perm.
Import ListNotations.

(* Full statement (kept visible): after an abort / task abort / request drop, no output whose origin
   lies in the cancelled work is ever produced, an aborted command is done once its outputs are taken,
   siblings are unaffected, late resolutions neither panic nor have consequences. *)
Definition C06_full_statement : Prop :=
  forall fuel c acts os, direct fuel c acts = Some os -> C06_ok (false, false, c, [], acts, os) = true.

(* Final: once a command's abort flag is seen, it stays seen through every runtime step of every
   command (settle / poll_next on any command id), for every fuel and heap ... *)
Theorem C06_abort_permanent_settle : forall fuel cid' cid H H',
  cid < length (cmds H) -> settle fuel cid' H = Some H' -> was_aborted cid H = true -> was_aborted cid H' = true.
Proof. exact abort_permanent_settle. Qed.
Theorem C06_abort_permanent_poll_next : forall fuel cid' w cid H r H',
  cid < length (cmds H) -> poll_next fuel cid' w H = Some (r, H') -> was_aborted cid H = true -> was_aborted cid H' = true.
Proof. exact abort_permanent_poll_next. Qed.
(* ... and through further aborts *)
Theorem C06_abort_permanent_abort : forall n cid H, was_aborted cid H = true -> was_aborted cid (add_aborted n H) = true.
Proof. exact was_aborted_add. Qed.

(* Never runs again: settling an aborted command does not call any of the runtime's recursive
   functions (no task of it is polled, no nested command of it is polled). *)
Theorem C06_aborted_never_polled : forall F G cid H,
  was_aborted cid H = true -> rsettle (step_funs F) cid H = rsettle (step_funs G) cid H.
Proof. exact settle_aborted_no_poll. Qed.

(* Silent, at every nesting level: once a command X is aborted, no step of the runtime - settling or
   polling ANY command: X itself, the command hosting it, commands nested in it, siblings - ever adds an
   effect or an event to X's output queues; what is already there can only be taken or dropped.  For
   every fuel and every heap (no well-formedness assumption), for aborts raised by the shell or by a
   task of the command itself. *)
Theorem C06_aborted_outputs_only_shrink_settle : forall X fuel cid H H',
  X < length (cmds H) -> was_aborted X H = true -> settle fuel cid H = Some H' ->
  is_suffix (c_eff (gcmd X H')) (c_eff (gcmd X H)) /\ is_suffix (c_evs (gcmd X H')) (c_evs (gcmd X H)).
Proof. exact aborted_outputs_only_shrink_settle. Qed.
Theorem C06_aborted_outputs_only_shrink_poll_next : forall X fuel cid w H r H',
  X < length (cmds H) -> was_aborted X H = true -> poll_next fuel cid w H = Some (r, H') ->
  is_suffix (c_eff (gcmd X H')) (c_eff (gcmd X H)) /\ is_suffix (c_evs (gcmd X H')) (c_evs (gcmd X H)).
Proof. exact aborted_outputs_only_shrink_poll_next. Qed.

(* Final, for a TASK aborted through its JoinHandle, and for a request dropped unresolved: through every
   step of the runtime (settling or polling any command at any nesting level; for every fuel and heap) a
   task's abort flag stays set, a task whose flag is set is never polled again (run_task answers Completed
   without calling poll, so it can produce nothing more), the sending end of a dropped request stays closed
   and the receiving end of a request whose future was dropped stays closed - so a late resolution of a
   request that belonged to cancelled work is refused and changes nothing but the coverage log, now and
   for ever.  (Rt/Perm.v: the frame principle instantiated with "what only ever moves one way".) *)
Theorem C06_task_abort_permanent_settle : forall fuel cid H H' u,
  settle fuel cid H = Some H' -> tf_abort (gtf u H) = true -> tf_abort (gtf u H') = true.
Proof. intros fuel cid H H' u E. exact (pm_abort _ _ (perm_settle fuel cid H H' E) u). Qed.
Theorem C06_task_abort_permanent_poll_next : forall fuel cid w H r H' u,
  poll_next fuel cid w H = Some (r, H') -> tf_abort (gtf u H) = true -> tf_abort (gtf u H') = true.
Proof. intros fuel cid w H r H' u E. exact (pm_abort _ _ (perm_poll_next fuel cid w H r H' E) u). Qed.
Theorem C06_aborted_task_never_polled : forall F G cid slot H t,
  slab_get slot (gcmd cid H) = Some t -> tf_abort (gtf (t_uid t) H) = true ->
  rrun_task (step_funs F) cid slot H = Some (Completed, note B_AbortedBeforePoll H) /\
  rrun_task (step_funs F) cid slot H = rrun_task (step_funs G) cid slot H.
Proof. exact aborted_task_never_polled. Qed.
Theorem C06_dropping_a_request_closes_it : forall tg v maps ch H,
  ch_tx (gch ch (drop_req (mkEff tg v maps (ROnce ch)) H)) = false /\
  ch_tx (gch ch (drop_req (mkEff tg v maps (RMany ch)) H)) = false.
Proof. intros. unfold drop_req; cbn [e_res]. split; apply drop_tx_closes. Qed.
Theorem C06_closed_ends_stay_closed_settle : forall fuel cid H H' ch,
  settle fuel cid H = Some H' ->
  (ch_tx (gch ch H) = false -> ch_tx (gch ch H') = false) /\ (ch_rx (gch ch H) = false -> ch_rx (gch ch H') = false).
Proof. intros fuel cid H H' ch E. pose proof (perm_settle fuel cid H H' E) as P. split; [apply (pm_tx _ _ P) | apply (pm_rx _ _ P)]. Qed.
Theorem C06_closed_ends_stay_closed_poll_next : forall fuel cid w H r H' ch,
  poll_next fuel cid w H = Some (r, H') ->
  (ch_tx (gch ch H) = false -> ch_tx (gch ch H') = false) /\ (ch_rx (gch ch H) = false -> ch_rx (gch ch H') = false).
Proof. intros fuel cid w H r H' ch E. pose proof (perm_poll_next fuel cid w H r H' E) as P. split; [apply (pm_tx _ _ P) | apply (pm_rx _ _ P)]. Qed.
Theorem C06_late_value_refused : forall ch v H,
  ch_rx (gch ch H) = false -> chan_send ch v H = (false, note B_SendClosed H).
Proof. exact send_to_closed_refused. Qed.

(* Dropping cancelled work reaches everything below it, at any nesting depth: a drop starts with fuel dfuel H
   (2 per command in the table, plus 2); under the order invariant - which every state of a directly driven command
   and of an app under a Core satisfies - more fuel changes nothing, i.e. the recursion through hosting futures and
   the commands they host never stops early.  (No constant bounds the nesting depth in the model.) *)
From Crux Require Rt.EvictHost Rt.DropFuel.
Theorem C06_drop_of_a_command_never_runs_out_of_fuel : forall n x H,
  EvictHost.OrdH H -> drop_cmd (n + dfuel H) x H = drop_cmd (dfuel H) x H.
Proof. exact DropFuel.drop_cmd_fuel_suffices. Qed.
Theorem C06_drop_of_a_future_never_runs_out_of_fuel : forall n fs H,
  EvictHost.OrdH H -> drop_fs (n + dfuel H) fs H = drop_fs (dfuel H) fs H.
Proof. exact DropFuel.drop_fs_fuel_suffices. Qed.
(* ... and dropping never adds a task to any command *)
Theorem C06_drop_adds_no_task : forall fuel cid H c t,
  EvictHost.tasks_of (gcmd c (drop_cmd fuel cid H)) t -> EvictHost.tasks_of (gcmd c H) t.
Proof. intros fuel cid H c t. apply (DropFuel.Rna_drop_cmd fuel cid H c t). Qed.

(* Containment at the level of tasks: when the executor disposes of a cancelled (aborted, evicted or completed) task,
   every OTHER task of the same command is left exactly as it was - the future stored in its slot is untouched - and
   every other command's task table is either untouched or emptied entirely (the commands the cancelled future
   hosted, which are dropped with it).  For every heap (Rt/TaskRelease.v). *)
From Crux Require Rt.TaskRelease.
Theorem C06_cancelled_task_leaves_its_siblings_untouched : forall cid s t H,
  (forall s', s' <> s -> slab_get s' (gcmd cid (finish_task cid s t H)) = slab_get s' (gcmd cid H) \/
                         c_ent (gcmd cid (finish_task cid s t H)) = []) /\
  (forall c', c' <> cid -> c_ent (gcmd c' (finish_task cid s t H)) = c_ent (gcmd c' H) \/
                           c_ent (gcmd c' (finish_task cid s t H)) = []).
Proof. exact TaskRelease.finish_task_contained. Qed.

(* ... and the same for a COMMAND-level abort: run_until_settled of an aborted command drops its own tasks and leaves
   every other command's task table untouched, or - for the commands hosted below it - emptied. *)
Theorem C06_aborted_command_leaves_other_commands_tasks_untouched : forall f x H H',
  was_aborted x H = true -> settle (S f) x H = Some H' ->
  forall c', c_ent (gcmd c' H') = c_ent (gcmd c' H) \/ c_ent (gcmd c' H') = [].
Proof. exact TaskRelease.aborted_settle_contained. Qed.

(* ... and neither ever adds to, reorders or takes from the OUTPUT queues of any other command: each other command's
   event and effect queue is left exactly as it was, or (a command dropped on the way) emptied.  Together with
   C06_aborted_outputs_only_shrink_* (the cancelled command's own queues only shrink): cancellation processing produces
   no output anywhere and disturbs no sibling's output. *)
Theorem C06_cancelled_task_leaves_other_commands_outputs_untouched : forall cid s t H c',
  c' <> cid ->
  (c_evs (gcmd c' (finish_task cid s t H)) = c_evs (gcmd c' H) /\ c_eff (gcmd c' (finish_task cid s t H)) = c_eff (gcmd c' H)) \/
  (c_evs (gcmd c' (finish_task cid s t H)) = [] /\ c_eff (gcmd c' (finish_task cid s t H)) = []).
Proof. exact TaskRelease.finish_task_outputs_contained. Qed.
Theorem C06_aborted_command_leaves_other_commands_outputs_untouched : forall f x H H',
  was_aborted x H = true -> settle (S f) x H = Some H' ->
  forall c', c' <> x ->
  (c_evs (gcmd c' H') = c_evs (gcmd c' H) /\ c_eff (gcmd c' H') = c_eff (gcmd c' H)) \/ (c_evs (gcmd c' H') = [] /\ c_eff (gcmd c' H') = []).
Proof. exact TaskRelease.aborted_settle_outputs_contained. Qed.

(* The trace predicate that the check evaluates on the implementation holds of EVERY trace of the
   model: for every command, every schedule (late and repeated resolutions, drops, further aborts, tasks
   spawned onto the aborted command, any number of inspections) and every positive fuel, once the
   outermost command has been aborted its leftovers can be taken once, nothing new ever appears, and it
   reports done as soon as both queues have been taken. *)
Theorem C06_ok_holds_of_model_top_abort : forall fuel c acts os,
  direct (S fuel) c acts = Some os -> C06_scan (top_names c) acts os = true.
Proof. exact direct_C06_scan. Qed.

(* A late resolution is an ordinary value, never a panic, in the model: Resolve::resolve is total. *)
Theorem C06_late_resolve_total : forall e v H, exists code e' H', resolve_req e v H = (code, e', H') /\ code <= 2.
Proof.
  intros e v H. unfold resolve_req. destruct (e_res e).
  - do 3 eexists; split; [reflexivity|auto].
  - destruct (chan_send c v H). do 3 eexists; split; [reflexivity|auto].
  - destruct (chan_send c v H) as [[|] H1]; do 3 eexists; split; try reflexivity; auto.
  - destruct (chan_send c v H). do 3 eexists; split; [reflexivity|auto].
Qed.

Example C06_nonvacuous :
  direct FUEL0 (CAbortable 1 (CAll [c_req_send 1 1 9; c_req_send 1 2 9]))
         [AEffects; AAbort 1; AIsDone; AResolve 1 1 0 1; AResolve 1 2 0 2; AEvents; AEffects]
  = Some [OEffects [mkOE 1 1 [] KOnce; mkOE 1 2 [] KOnce]; ONone; ODone true 0; OResolve 0; OResolve 0; OEvents []; OEffects []].
Proof. vm_compute. reflexivity. Qed.
