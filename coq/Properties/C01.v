(* C01 - a core call runs to quiescence and hands over every effect exactly once.  Statements only. *)
From Coq Require Import List Arith Bool.
From Crux Require Import Rt.Lang Rt.Rt Rt.Host Rt.Check Rt.Frame Rt.Props Rt.HostProps.
Import ListNotations.

(* Full statement (kept visible): every call of every app leaves the whole core quiescent - executor
   queues, event and request channels and, recursively, every hosted command at every depth - returns
   each requested effect exactly once, and has applied every emitted event.  Its observable form is
   C01_ok of Check.v: a Noop probe after any call returns nothing and changes nothing but the log. *)
Definition C01_full_statement : Prop :=
  forall fuel hs acts os, under_core fuel hs acts = Some os -> C01_ok (true, false, c_done, hs, acts, os) = true.

(* Proved part 1 (every fuel, heap, command): run_until_settled leaves the command's own ready and
   spawn queues empty unless the command is aborted (by the shell before the call, or by one of its own
   tasks during it). *)
Theorem C01_settle_quiescent_partial : forall fuel cid H H',
  was_aborted cid H = false -> settle fuel cid H = Some H' ->
  c_ready (gcmd cid H') = [] /\ c_spawnq (gcmd cid H') = [].
Proof. exact settle_quiescent. Qed.

(* Proved part 2: a call never loses or reorders applied events - the log after any call extends the
   log before it (used with C03). *)
Theorem C01_log_extends : forall fuel0 fuel hs k k', process fuel0 fuel hs k = Some k' -> extends (k_log k) (k_log k').
Proof. exact process_log. Qed.

(* Proved part 3: no runtime step removes an abort or changes the identity of existing commands
   (the frame theorem instantiated; every function of the runtime, every fuel). *)
Theorem C01_frame_meta : forall fuel, spec Rmeta (funs fuel).
Proof. exact frame_meta. Qed.

Example C01_nonvacuous :
  under_core FUEL0 [(1, c_req_send 5 0 7)] [AEvent 1 0; AEvent 99 0; AResolve 5 0 0 11; AEvent 99 0]
  = Some [OCall 0 [mkOE 5 0 [] KOnce] [mkEv 1 0 []];
          OCall 0 [] [mkEv 1 0 []; mkEv 99 0 []];
          OCall 0 [] [mkEv 1 0 []; mkEv 99 0 []; mkEv 7 11 []];
          OCall 0 [] [mkEv 1 0 []; mkEv 99 0 []; mkEv 7 11 []; mkEv 99 0 []]].
Proof. vm_compute. reflexivity. Qed.
