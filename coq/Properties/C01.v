(* C01 - a core call runs to quiescence and hands over every effect exactly once.  Statements only. *)
From Coq Require Import List Arith Bool.
From Crux Require Import Rt.Lang Rt.Rt Rt.Host Rt.Check Rt.Frame Rt.Props Rt.HostProps.
Import ListNotations.

(* The observable form of C01 is C01_ok of Check.v: a Noop probe (an event nobody handles) submitted right
   after any accepted call returns no effect and changes nothing but the log - nothing runnable had been
   left behind, nothing was deferred to a later call.  It is PROVED of every trace of the Core model, for
   every app in which event 99 has no handler, every history and every fuel >= 6 (below that not even
   Command::done() can be run): *)
From Crux Require Rt.Probe.
Theorem C01_ok_holds_of_model : forall F hs d p acts os,
  lookup 99 hs = c_done ->
  under_core (S (S (S (S (S (S F)))))) hs acts = Some os -> C01_ok (true, d, p, hs, acts, os) = true.
Proof. intros F hs d p acts os Hp. exact (Probe.C01_ok_of_model F hs Hp d p acts os). Qed.

(* its core, for ANY heap (whatever channels, tasks and other commands it holds): on an idle Core - executor
   queues empty, no event pending, request channel drained, which is how every accepted call leaves it
   (C01_core_idle_at_return below) - the call returns no effect, applies exactly its own event, leaves the
   Core idle and the shell's requests untouched *)
Theorem C01_probe_silent_model : forall F hs tg v k,
  lookup tg hs = c_done ->
  k_spawn k = [] -> xready (k_H k) = [] -> k_events k = [] -> hout (k_H k) = [] ->
  exists k', cstep (S (S (S (S (S (S F)))))) hs (AEvent tg v) k = Some (OCall 0 [] (k_log k ++ [mkEv tg v []]), k') /\
             k_spawn k' = [] /\ xready (k_H k') = [] /\ k_events k' = [] /\ hout (k_H k') = [] /\
             k_log k' = k_log k ++ [mkEv tg v []] /\ k_reqs k' = k_reqs k.
Proof. exact Probe.probe_silent_model. Qed.

(* What the probe does not observe, and what therefore still rests on the correspondence alone (kept
   visible): that every command hosted inside another, at every depth, has empty ready and spawn queues when
   the call returns, and that each requested effect is handed over exactly once. *)
Definition C01_full_statement : Prop :=
  forall fuel hs acts os, under_core fuel hs acts = Some os -> C01_ok (true, false, c_done, hs, acts, os) = true.

(* Proved part 1 (every fuel, heap, command): run_until_settled leaves the command's own ready and
   spawn queues empty unless the command is aborted (by the shell before the call, or by one of its own
   tasks during it). *)
Theorem C01_settle_quiescent_partial : forall fuel cid H H',
  was_aborted cid H = false -> settle fuel cid H = Some H' ->
  c_ready (gcmd cid H') = [] /\ c_spawnq (gcmd cid H') = [].
Proof. exact settle_quiescent. Qed.

(* Proved part 2: a call never loses or reorders applied events - the log after any call extends the
   log before it (used with C03). *)
Theorem C01_log_extends : forall fuel0 fuel hs k k', process fuel0 fuel hs k = Some k' -> extends (k_log k) (k_log k').
Proof. exact process_log. Qed.

(* Proved part 2b (every app, fuel and core state): when the event loop of a call returns, the executor's
   spawn queue and ready queue are empty and no emitted event is left unapplied - no runnable work is
   left behind at the level of the core. *)
Theorem C01_core_idle_at_return : forall fuel0 fuel hs k k', process fuel0 fuel hs k = Some k' ->
  k_spawn k' = [] /\ xready (k_H k') = [] /\ k_events k' = [].
Proof. exact process_idle. Qed.

(* Proved part 3: no runtime step removes an abort or changes the identity of existing commands
   (the frame theorem instantiated; every function of the runtime, every fuel). *)
Theorem C01_frame_meta : forall fuel, spec Rmeta (funs fuel).
Proof. exact frame_meta. Qed.

(* Proved part 4: C01 for the reference semantics of an app under a Core (coq/Rt/RefCore.v), with which
   every call of the implementation is compared on every run (RC_ok).  For every app, history and state:
   (a) re-running any residual command that a call has run produces no output, allocates nothing and changes
   nothing, from any request counter and with any larger fuel; (b) every accepted call (an event, or a
   resolution the arity allows) leaves the whole app idle: no emitted event unapplied, every command settled;
   (c) on an idle app, an event whose handler returns Command::done() returns no effect, appends exactly
   itself to the log, starts nothing and leaves the app idle - nothing had been left behind by the calls
   before it, nothing was deferred to it. *)
(* Exactly-once hand-over at the core's request channel, for every app, fuel and core state: during a call
   the channel only grows - no step (polling any task of any command at any depth, dropping finished
   commands, spawning what update returns) removes or rewrites a request already in it - and the call then
   returns the WHOLE channel, leaves it empty and records every returned request once in the shell's table.
   An effect that reached the channel is therefore in the return value of exactly the call during which it
   was requested: not dropped, not duplicated, not deferred to a later call. *)
From Crux Require Rt.Perm.
Theorem C01_requests_only_accumulate : forall fuel0 fuel hs k k',
  process fuel0 fuel hs k = Some k' -> exists requested, hout (k_H k') = hout (k_H k) ++ requested.
Proof. exact process_hout. Qed.
Theorem C01_call_hands_over_the_whole_channel : forall code k,
  fst (take_out code k) = OCall code (map oeff_of (hout (k_H k))) (k_log k) /\
  hout (k_H (snd (take_out code k))) = [] /\
  k_reqs (snd (take_out code k)) = k_reqs k ++ map (fun e => mkRq e false) (hout (k_H k)).
Proof. exact take_out_hands_over_everything. Qed.
Theorem C01_no_runtime_step_touches_requested_effects : forall fuel cid w H r H',
  poll_next fuel cid w H = Some (r, H') -> exists requested, hout H' = hout H ++ requested.
Proof. exact Perm.hout_poll_next. Qed.

(* One layer of quiescence, proved of the runtime model for every heap that satisfies the order invariant (every state a
   core can reach does: C07_order_invariant_under_a_core): when QueuingExecutor::run_task returns and the task still
   hosts its command, the command has no output left, its own ready and spawn queues are empty (unless it has been
   aborted, then its tasks are gone), and its AtomicWaker cell holds the executor task's waker or the executor task is
   already queued again - so a later wake-up of any of its tasks reaches the executor's ready queue
   (C05_wake_reaches_executor_at_any_depth).  For the layers below: C05_pending_command_is_quiet_and_host_subscribed_any. *)
From Crux Require Rt.EvictHost Rt.CoreOrd.
Theorem C01_executor_task_leaves_its_command_quiet_and_subscribed : forall FUEL' fuel q k k' cid,
  EvictHost.OrdH (k_H k) -> xget q (k_slab k) = Some cid -> cid < length (cmds (k_H k)) ->
  xrun_task (S FUEL') fuel q k = Some k' -> xget q (k_slab k') = Some cid ->
  c_evs (gcmd cid (k_H k')) = [] /\ c_eff (gcmd cid (k_H k')) = [] /\
  (was_aborted cid (k_H k') = false -> c_ready (gcmd cid (k_H k')) = [] /\ c_spawnq (gcmd cid (k_H k')) = []) /\
  (c_atomic (gcmd cid (k_H k')) = Some (WExec q) \/ In q (xready (k_H k'))) /\ EvictHost.OrdH (k_H k').
Proof. exact CoreOrd.xrun_task_leaves_command_quiet_and_subscribed. Qed.

(* Below the core's channel: exactly-once hand-over on every HOP between a hosted command and its host, at any nesting
   level.  (1) the effect queue of every command is FIFO through every function of the runtime (it only loses at the
   front and gains at the back: nothing is duplicated into it or taken out of its middle); (2) Stream::poll_next of a
   command hands the host the element at the head of its queue and removes exactly that element; (3) the hosting
   future appends exactly that element (through its mapping) to the back of its own command's queue, once, and polls
   again.  (Rt/Fifo.v over the primitive-aware frame principle Rt/Frame2.v.) *)
From Crux Require Rt.Fifo.
Theorem C01_effect_queues_are_fifo : forall fuel cid w H r H' c, poll_next fuel cid w H = Some (r, H') ->
  Fifo.fifo (c_eff (gcmd c H)) (c_eff (gcmd c H')).
Proof. intros fuel cid w H r H' c E. exact (proj2 (Fifo.fifo_poll_next fuel cid w H r H' E c)). Qed.
Theorem C01_hosted_command_hands_over_the_head_of_its_queue : forall fuel cid w H e H',
  poll_next (S fuel) cid w H = Some (PNEffect e, H') ->
  exists H1 rest, settle fuel cid (ucmd cid (set_atomic (Some w)) H) = Some H1 /\
    c_eff (gcmd cid H1) = e :: rest /\ H' = ucmd cid (set_eff rest) H1.
Proof.
  intros fuel cid w H e H' E. destruct (Fifo.poll_next_hands_over_the_head fuel cid w H _ H' E) as (H1 & S1 & rest & _ & E2 & E3).
  exists H1, rest. split; [exact S1 | split; [exact E2 | exact E3]].
Qed.
Theorem C01_host_appends_it_once_and_polls_again : forall f c w fs H x meff mev k e H1,
  f_leaf fs = LHost x meff mev k -> poll_next f x w H = Some (PNEffect e, H1) ->
  poll (S f) c w fs H = poll f c w fs (push_eff c (map_eff meff e) H1) /\
  c_eff (gcmd c (push_eff c (map_eff meff e) H1)) = c_eff (gcmd c H1) ++ [map_eff meff e].
Proof.
  intros f c w fs H x meff mev k e H1 EL E. split; [eapply Fifo.host_hop_effect; eassumption | apply Fifo.push_eff_appends].
Qed.

(* The same for apps written against the LEGACY capability API (coq/Rt/Legacy.v: QueuingExecutor::run_all with its
   did_some_work flag, CapabilityContext::{spawn, notify_shell, update_app, request_from_shell, stream_from_shell}):
   run_all returns only with the spawn queue and the ready queue empty; the event loop returns only with, in
   addition, no event unapplied; during a call the request channel only grows and the call hands over all of it.
   For every handler table, core state and fuel. *)
From Crux Require Rt.Legacy Rt.LegacyProps.
Theorem C01_legacy_run_all_runs_to_quiescence : forall fuel k k',
  Legacy.lrun_all fuel k = Some k' -> Legacy.l_spawn k' = [] /\ Legacy.l_ready k' = [].
Proof. intros fuel k k' E. destruct (LegacyProps.lrun_all_spec fuel k k' E) as (_ & A & B). split; assumption. Qed.
Theorem C01_legacy_call_runs_to_quiescence : forall fuel hs k k', Legacy.lprocess fuel hs k = Some k' ->
  Legacy.l_spawn k' = [] /\ Legacy.l_ready k' = [] /\ Legacy.l_events k' = [] /\
  exists requested, Legacy.l_out k' = Legacy.l_out k ++ requested.
Proof.
  intros fuel hs k k' E. destruct (LegacyProps.lprocess_spec fuel hs k k' E) as (_ & O & A & B & C).
  split; [exact A | split; [exact B | split; [exact C | exact O]]].
Qed.
Theorem C01_legacy_call_hands_over_the_whole_channel : forall code k,
  fst (Legacy.ltake_out code k) = OCall code (map Legacy.loeff (Legacy.l_out k)) (Legacy.l_log k) /\
  Legacy.l_out (snd (Legacy.ltake_out code k)) = [] /\
  Legacy.l_reqs (snd (Legacy.ltake_out code k)) = Legacy.l_reqs k ++ Legacy.l_out k.
Proof. exact LegacyProps.ltake_out_hands_over_everything. Qed.

(* ... and the observable form of the property holds of EVERY trace of the legacy host as well: for every app without
   a handler for the probe event and every history, a Noop probe after any accepted call returns no effect and changes
   nothing but the log. *)
Theorem C01_ok_holds_of_legacy_model : forall hs acts os, Legacy.llookup 99 hs = [] ->
  Legacy.under_legacy_core hs acts = Some os -> C01_probes acts os None = true.
Proof. exact LegacyProps.C01_ok_holds_of_legacy_model. Qed.

From Crux Require Rt.Ref Rt.RefCore Rt.RefCoreProps Rt.RefQuiesce.
Theorem C01_ref_rerun_is_silent : forall fuel en c n c' n' o,
  Ref.run fuel en c n = Some (c', n', o) -> forall g m, fuel <= g -> Ref.run g en c' m = Some (c', m, Ref.ro0).
Proof. exact RefQuiesce.run_idem. Qed.
Theorem C01_ref_call_leaves_idle : forall hs a st effs lg st',
  RefCore.kstep hs a st = Some (RefCore.KCall 0 effs lg, st') -> RefQuiesce.idle st'.
Proof. exact RefQuiesce.call_leaves_idle. Qed.
Theorem C01_ref_probe_silent : forall hs tg v st,
  RefQuiesce.idle st -> RefCore.ks_out st = [] -> lookup tg hs = c_done ->
  exists st', RefCore.kstep hs (AEvent tg v) st = Some (RefCore.KCall 0 [] (RefCore.ks_log st ++ [mkEv tg v []]), st') /\
              RefCore.ks_cmds st' = RefCore.ks_cmds st /\ RefCore.ks_n st' = RefCore.ks_n st /\
              RefCore.ks_reqs st' = RefCore.ks_reqs st /\ RefQuiesce.idle st'.
Proof. exact RefQuiesce.probe_silent. Qed.
(* non-vacuity: after a call that leaves a request outstanding the app is idle with one waiting strand *)
Definition C01_demo_app : handlers := [(1, c_req_send 5 0 7)].
Definition C01_demo_st : RefCore.kst :=
  Eval vm_compute in match RefCore.kstep C01_demo_app (AEvent 1 0) RefCore.ks0 with Some (_, s) => s | None => RefCore.ks0 end.
Example C01_ref_nonvacuous :
  RefQuiesce.idle C01_demo_st /\ RefCore.ks_out C01_demo_st = [] /\ lookup 99 C01_demo_app = c_done /\
  length (RefCoreProps.strands_of (RefCore.ks_cmds C01_demo_st)) = 1.
Proof.
  split; [|split; [|split]]; try reflexivity.
  apply (RefQuiesce.call_leaves_idle C01_demo_app (AEvent 1 0) RefCore.ks0 [Ref.mkRE 5 0 [] 0 1] [mkEv 1 0 []]).
  vm_compute. reflexivity.
Qed.

Example C01_nonvacuous :
  under_core FUEL0 [(1, c_req_send 5 0 7)] [AEvent 1 0; AEvent 99 0; AResolve 5 0 0 11; AEvent 99 0]
  = Some [OCall 0 [mkOE 5 0 [] KOnce] [mkEv 1 0 []];
          OCall 0 [] [mkEv 1 0 []; mkEv 99 0 []];
          OCall 0 [] [mkEv 1 0 []; mkEv 99 0 []; mkEv 7 11 []];
          OCall 0 [] [mkEv 1 0 []; mkEv 99 0 []; mkEv 7 11 []; mkEv 99 0 []]].
Proof. vm_compute. reflexivity. Qed.
