(* C16 - HTTP middleware wraps requests in order; redirects are bounded and exact.  Statements only.
   Model: HttpResp/Mw.v (crux_http after the fix: commits ad19b9f and d7f6296); proofs: HttpResp/MwProofs.v.
   Every statement is for every shell (a function from the request it receives to its answer: every
   redirect graph, loops included), every URL parser / joiner (the url crate is an oracle), every
   request; stacks and attempt limits as quantified in each. *)
From Coq Require Import List NArith Bool String.
From Crux Require Import HttpResp.Resp HttpResp.Mw HttpResp.MwProofs.
Import ListNotations.
Open Scope N_scope.

(* ---- order: client middleware, then per-request middleware, then the shell, exactly once, and back
   out in reverse; the request the shell sees carries what each middleware added, in that order *)
Theorem C16_order : forall shell R cs rs q ic ir,
  pass_ids cs = Some ic -> pass_ids rs = Some ir ->
  client_send shell R cs q rs =
  (map Enter ic ++ map Enter ir ++ [Shell (pass_request (cs ++ rs) q)] ++ map Exit (rev ir) ++ map Exit (rev ic),
   client_send0 (shell (pass_request (cs ++ rs) q))).
Proof. exact client_send_order. Qed.

(* ---- for EVERY stack (any mix of the five kinds, any length) the enter/exit marks are well nested *)
Theorem C16_marks_well_nested : forall shell parse_abs join s q,
  balanced (fst (next_run shell (redirect_spec shell parse_abs join) s q)) = true.
Proof. exact marks_well_nested. Qed.

(* ---- the shell is reached exactly once per invocation of the rest of the chain: a stack of
   pass-through / short-circuiting / retrying middleware reaches it [runs s] times (1 per pass-through
   chain, 0 below a short circuit, n+1 under a retry of n) *)
Theorem C16_shell_once_per_run : forall shell R s q k,
  runs s = Some k -> count_shell (fst (next_run shell R s q)) = k.
Proof. exact next_run_shell_count. Qed.

(* ---- redirects: at most [attempts] probes, whatever the graph *)
Theorem C16_bounded : forall shell parse_abs join n q,
  (List.length (fst (follow shell parse_abs join n q)) <= n)%nat.
Proof. exact follow_bounded. Qed.

(* every probe is the original request (method, headers) without its body *)
Theorem C16_probes_are_bodyless_copies : forall shell parse_abs join n q,
  Forall (fun m => exists p, m = Shell p /\ probe_of q p) (fst (follow shell parse_abs join n q)).
Proof. exact follow_probes. Qed.

(* the first answer that is not a redirect ends probing: one probe, the request goes on unchanged *)
Theorem C16_stops_at_first_non_redirect : forall shell parse_abs join k q ra,
  answer shell (clone_req q) = HOk ra -> is_redirect (ra_status ra) = false ->
  follow shell parse_abs join (S k) q = ([Shell (clone_req q)], HOk q).
Proof. exact stops_at_first_non_redirect. Qed.

(* every probe that is followed by another probe was answered by a redirect, and the next probe goes to
   its Location resolved against the URL of the probe that has just been answered - the CURRENT url *)
Theorem C16_relative_current_url : forall shell parse_abs join n q l1 p p' l2 r,
  follow shell parse_abs join n q = (l1 ++ Shell p :: Shell p' :: l2, r) -> hop shell parse_abs join p p'.
Proof. exact follow_consecutive. Qed.

(* the request finally forwarded is the original - method, headers, body - and its URL is that of the
   last probe when that probe was answered by a non-redirect, else the last Location resolved *)
Theorem C16_final_request : forall shell parse_abs join n q q',
  snd (follow shell parse_abs join n q) = HOk q' -> same_but_url q q'.
Proof. exact follow_final. Qed.
Theorem C16_final_url : forall shell parse_abs join n q l p q',
  follow shell parse_abs join n q = (l ++ [Shell p], HOk q') ->
  (exists ra, answer shell p = HOk ra /\ is_redirect (ra_status ra) = false /\ q_url q' = q_url p) \/
  hop shell parse_abs join p q'.
Proof. exact follow_last. Qed.

(* ---- the code (Redirect::handle's loop with its u8 counter, inside Next::run / Client::send) is the
   reference semantics, for every stack whose attempt limits are u8 *)
Theorem C16_code_refines_statement : forall shell parse_abs join a cs q rs,
  stack_valid cs = true -> stack_valid rs = true ->
  run_impl shell parse_abs join a cs q rs = run_spec shell parse_abs join a cs q rs.
Proof. exact run_refines. Qed.

(* ---- every API: the command API is the capability API with an empty client stack; send_async
   produces the same log *)
Theorem C16_all_apis : forall shell R cs q rs,
  run16 shell R ACmdBuild cs q rs = run16 shell R ACapSend [] q rs /\
  g_log (run16 shell R ACapAsync cs q rs) = g_log (run16 shell R ACapSend cs q rs).
Proof. exact all_apis. Qed.

(* ---- link with C15: under pass-through middleware (none at all included) the app's event is the C15
   classification of the shell's answer to the one request that reached it *)
Theorem C16_outcome_is_C15_outcome : forall shell R mime_charset decode json cs rs q ic ir,
  pass_ids cs = Some ic -> pass_ids rs = Some ir ->
  g_events (run16 shell R ACapSend cs q rs) =
  t_events (run mime_charset decode json ACap XBytes (shell (pass_request (cs ++ rs) q))) /\
  g_panicked (run16 shell R ACapSend cs q rs) =
  t_panicked (run mime_charset decode json ACap XBytes (shell (pass_request (cs ++ rs) q))).
Proof. exact pass_stack_outcome_is_C15. Qed.

(* ---- the trace predicate evaluated on the implementation holds of the model, for every case *)
Theorem C16_ok_holds_of_model : forall c,
  stack_valid (c_client c) = true -> stack_valid (c_req c) = true ->
  C16_ok c (run_impl (tbl_shell c) (tbl_parse c) (tbl_join c) (c_api c) (c_client c) (c_request c) (c_req c)) = true.
Proof. exact C16_ok_model. Qed.

(* non-vacuity: the two-relative-redirects graph of the design phase (/x/y -"z/w"-> /x/z/w -"q"-> must
   reach /x/z/q; the code before ad19b9f went to /x/q), with a toy joiner that knows these two joins *)
Example C16_nonvacuous :
  let u := fun s => str s in
  let shell := fun q : request =>
    if bytes_eqb (q_url q) (str "/x/y") then Rsp 302 [Hd (str "location") (str "z/w")] []
    else if bytes_eqb (q_url q) (str "/x/z/w") then Rsp 302 [Hd (str "Location") (str "q")] []
    else Rsp 200 [] (q_url q) in
  let join := fun cur loc : bytes =>
    if bytes_eqb cur (str "/x/y") && bytes_eqb loc (str "z/w") then inl (str "/x/z/w")
    else if bytes_eqb cur (str "/x/z/w") && bytes_eqb loc (str "q") then inl (str "/x/z/q")
    else inr (str "?") in
  let q := Rq (str "POST") (str "/x/y") [] (str "payload") in
  run_impl shell (fun _ => URel) join ACmdBuild [] q [MPass 1 None; MRedirect 3; MPass 2 None] =
  T16 [Enter 1; Shell (Rq (str "POST") (str "/x/y") [] []); Shell (Rq (str "POST") (str "/x/z/w") [] []);
       Shell (Rq (str "POST") (str "/x/z/q") [] []); Enter 2; Shell (Rq (str "POST") (str "/x/z/q") [] (str "payload")); Exit 2; Exit 1]
      [OkR 200 None [] (Some (BBytes (str "/x/z/q")))] false.
Proof. vm_compute. reflexivity. Qed.
