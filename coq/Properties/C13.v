(* C13 - finished work is released.  Statements only.

   Registry (bridge/registry.rs over slab 0.4.9): coq/Bridge/Bridge.v, for every app and codec (Section variables).
   Tasks / consumers (command/executor.rs eviction, command/context.rs channels, legacy shell_request/shell_stream):
   the request-layer heap coq/Bridge/Resolve.v.  Legacy timers (crux_time/src/lib.rs CLEARED_TIMER_IDS): Timer.v.
   The full statement "resource use is bounded by the outstanding work" is FALSE of the faithful models in four
   places; each has a refutation witness below (replayed on the real code by ./check C13, which prints a
   KNOWN-FINDING line per class) and the theorems state exactly what does hold.                                  *)
From Coq Require Import List Arith Bool ZArith NArith Lia.
From Crux Require Import Base.Res Bridge.Slab Bridge.SlabProofs Bridge.Bridge Bridge.BridgeProofs Bridge.RegistryProofs
                         Bridge.ReleaseProofs Bridge.Resolve Bridge.ResolveProofs Bridge.HeapReleaseProofs
                         Bridge.Timer Bridge.TimerProofs Bridge.Twin Bridge.Release Bridge.LiveBoundProofs.
Import ListNotations.
Close Scope N_scope.
Open Scope nat_scope.

(* ================================================================== the registry *)
Section C13_registry.
Variables (cstate event op value view handle B : Type).
Notation eff := (eff op handle).
Notation bytes := (list B).
Variable core_event : cstate -> event -> cstate * list eff.
Variable core_process : cstate -> cstate * list eff.
Variable core_call : cstate -> handle -> value -> cstate * bool.
Variable core_drop : cstate -> handle -> cstate.
Variable core_view : cstate -> view.
Variable dec_event : bytes -> option (event * bytes).
Variable dec_out : op -> bytes -> option (value * bytes).
Variable enc_reqs : list (nat * op) -> bytes.
Variable enc_view : view -> bytes.
Notation bridge_step := (bridge_step cstate event op value view handle B core_event core_process core_call
                                     core_drop core_view dec_event dec_out enc_reqs enc_view).
Notation bridge_run := (bridge_run cstate event op value view handle B core_event core_process core_call
                                   core_drop core_view dec_event dec_out enc_reqs enc_view).

(* Full statement (false, see the refutations): at every state the registry holds no more entries than there
   are requests the shell could still resolve. *)
Definition C13_registry_full_statement : Prop :=
  forall b t, R cstate op handle b t ->
    length (slab_iter (b_reg b)) <= length (held_resolvable handle (t_held t)).

(* Proved part: the one-shot and stream entries (everything that is not a notification's entry) are in
   one-to-one correspondence with distinct requests the typed shell still holds un-consumed; so their number
   is bounded by the number of such requests - whatever the length of the history ([R] holds along every run:
   BridgeProofs.step_image). *)
Theorem C13_registry_bound_partial : forall b t, R cstate op handle b t ->
  length (resolvable_entries op handle (b_reg b)) <= length (held_resolvable handle (t_held t)).
Proof. exact (registry_bound cstate op handle). Qed.

(* Any response addressed to a one-shot's id - delivered, or undecodable - releases its entry: the id is free
   afterwards, or already reissued to a request created in that very call. *)
Theorem C13_once_entry_released : forall b id data b' r e,
  BInv cstate op handle b -> slab_get (b_reg b) id = Some e -> r_kind e = KOnce ->
  bridge_step b (BResp id data) = (b', r) -> is_panic r = false ->
  slab_get (b_reg b') id = None \/ exists e', slab_get (b_reg b') id = Some e' /\ b_seq b <= r_seq e'.
Proof. exact (once_entry_released cstate event op value view handle B core_event core_process core_call core_drop
               core_view dec_event dec_out enc_reqs enc_view). Qed.

(* What is never released (the shape of the two registry findings): a stream's entry survives every call for
   ever, including FinishedMany answers; a notification's entry survives until the shell responds to it. *)
Theorem C13_many_entry_kept_for_ever : forall is b id e,
  BInv cstate op handle b -> slab_get (b_reg b) id = Some e -> r_kind e = KMany ->
  slab_get (b_reg (snd (bridge_run b is))) id = Some e.
Proof. exact (many_entry_kept_for_ever cstate event op value view handle B core_event core_process core_call core_drop
               core_view dec_event dec_out enc_reqs enc_view). Qed.

Theorem C13_never_entry_kept_until_addressed : forall is b id e,
  BInv cstate op handle b -> slab_get (b_reg b) id = Some e ->
  (forall data, ~ In (BResp id data) is) ->
  slab_get (b_reg (snd (bridge_run b is))) id = Some e.
Proof. exact (never_entry_kept_until_addressed cstate event op value view handle B core_event core_process core_call
               core_drop core_view dec_event dec_out enc_reqs enc_view). Qed.
End C13_registry.

(* Slab storage is reused: an insertion extends the entries vector only when every slot is occupied, so the
   vector's length is the peak occupancy, not the number of insertions. *)
Theorem C13_slab_reuse : forall (V : Type) (s : slab V) v k s', wf s -> slab_insert s v = Ok (k, s') ->
  len s < length (entries s) -> length (entries s') = length (entries s) /\ k < length (entries s).
Proof. intros V. exact (@insert_reuses_vacant V). Qed.

(* Refutation 1 (class registry_keeps_notifications): five events that each only render; the registry then
   holds five entries, none of which can ever be resolved. *)
Definition five_renders : rtables :=
  mkTables (map (fun k => (k, [mkEff (0%N, 0%N) KNever (N.to_nat k)])) [0; 1; 2; 3; 4]%N) [] [] [[]; []; []; []; []; []].
Theorem C13_registry_notifications_refuted :
  exists calls, calls = m_twin_run five_renders (map (fun k => BEvent [0%N; k]) [0; 1; 2; 3; 4]%N) /\
    match rev calls with
    | c :: _ => snap_of (c_after _ _ _ _ _ c) = [(0, KNever); (1, KNever); (2, KNever); (3, KNever); (4, KNever)] /\
                resolvable_entries aop nat (b_reg (c_after _ _ _ _ _ c)) = []
    | [] => False
    end.
Proof. eexists. split; [reflexivity|]. vm_compute. split; reflexivity. Qed.

(* Refutation 2 (class registry_keeps_finished_streams): a stream whose consumer has ended answers FinishedMany
   and its entry is still registered. *)
Definition finished_stream : rtables :=
  mkTables [(0%N, [mkEff (5%N, 0%N) KMany 0])] [] [(0, 1%N, false)] [[]; []].
Theorem C13_registry_finished_stream_refuted :
  exists calls, calls = m_twin_run finished_stream [BEvent [0%N; 0%N]; BResp 0 [0%N; 1%N]] /\
    map (fun c => c_out _ _ _ _ _ c) calls = [Ok (t_enc_reqs [(0, (5%N, 0%N))]); Err E_FinishedMany] /\
    match rev calls with c :: _ => snap_of (c_after _ _ _ _ _ c) = [(0, KMany)] | [] => False end.
Proof. eexists. split; [reflexivity|]. vm_compute. split; reflexivity. Qed.

(* ================================================================== tasks and their consumers *)
(* the invariants hold at every reachable state of the request layer *)
Theorem C13_heap_invariants_reachable : forall acts,
  Inv (fst (run heap_empty acts)) /\ TxInv (fst (run heap_empty acts)).
Proof. intros acts. split; [apply run_Inv; apply Inv_empty|apply run_TxInv; [apply Inv_empty|apply TxInv_empty]]. Qed.

(* dropping a command, or aborting it and letting it run once, releases every consumer: none is alive, nothing
   stays buffered, no continuation event is produced *)
Theorem C13_drop_releases : forall h,
  live_tasks (fst (step h ADropAll)) = 0 /\
  forall c ch, nth_error (h_chans (fst (step h ADropAll))) c = Some ch -> ch_rx ch = false /\ ch_buf ch = [].
Proof. exact drop_all_releases. Qed.

Theorem C13_abort_releases : forall h,
  let h' := fst (step (fst (step h AAbort)) APoll) in
  live_tasks h' = 0 /\ o_events (snd (step (fst (step h AAbort)) APoll)) = [] /\
  forall c ch, nth_error (h_chans h') c = Some ch -> ch_rx ch = false /\ ch_buf ch = [].
Proof. exact abort_then_poll_releases. Qed.

(* a consumer that has taken its last value is gone, with whatever was still buffered for it *)
Theorem C13_finished_consumer_released : forall c l, ch_rx c = true -> ch_limit c = Some l ->
  l <= ch_taken c + length (ch_buf c) ->
  ch_rx (fst (consume c)) = false /\ ch_buf (fst (consume c)) = [].
Proof. exact consumer_end_releases. Qed.

(* released is for ever: whatever happens later, the consumer stays gone and nothing more is accepted for it
   or delivered to it (so senders the shell still holds can no longer deliver) *)
Theorem C13_released_for_ever : forall acts h c ch,
  nth_error (h_chans h) c = Some ch -> ch_rx ch = false ->
  exists ch', nth_error (h_chans (fst (run h acts))) c = Some ch' /\ ch_rx ch' = false /\
              ch_del ch' = ch_del ch /\ ch_acc ch' = ch_acc ch.
Proof. exact released_stays_released. Qed.

(* the bound for tasks: once the tasks have run, every live consumer of the command API waits, with nothing
   buffered, on a request whose callback still exists (issued by the same task) - live tasks are bounded by
   the requests that can still be resolved, at every reachable state *)
Definition C13_tasks_full_statement : Prop :=
  forall h c ch', Inv h -> TxInv h -> h_aborted h = false ->
    nth_error (h_chans (fst (step h APoll))) c = Some ch' -> ch_rx ch' = true ->
    exists rid q, nth_error (h_reqs (fst (step h APoll))) rid = Some q /\ closure_of (q_res q) = Some c.

Theorem C13_live_tasks_bounded_partial : forall h c ch',
  Inv h -> TxInv h -> h_aborted h = false ->
  nth_error (h_chans (fst (step h APoll))) c = Some ch' -> ch_rx ch' = true -> ch_legacy ch' = false ->
  ch_buf ch' = [] /\
  exists rid q, nth_error (h_reqs (fst (step h APoll))) rid = Some q /\ closure_of (q_res q) = Some c /\
                q_owner q = ch_owner ch'.
Proof. exact live_after_poll_has_outstanding_request. Qed.

(* The same bound in numbers - this is the clause of C13_ok evaluated on the implementation's drop counters,
   proved here of the model: once the tasks have run, live consumers <= requests that can still be resolved
   + legacy consumers that can never finish (the known class; 0 for the command API). *)
Theorem C13_live_tasks_count_bound : forall h, Inv h -> TxInv h -> h_aborted h = false ->
  let h' := fst (step h APoll) in
  live_count h' <= outstanding h' + legacy_stuck h'.
Proof. exact live_bound_after_poll. Qed.

(* Refutation 3 (class legacy_task_kept_after_unresolvable_request): a legacy-capability task whose request the
   shell dropped is still alive after the tasks have run, and no request can ever wake it. *)
Theorem C13_legacy_task_refuted :
  exists h, h = fst (run heap_empty [AIssue 0 KOnce None true; ADropReq 0; APoll]) /\
    Inv h /\ TxInv h /\ live_tasks h = 1 /\ outstanding h = 0 /\ legacy_stuck h = 1.
Proof.
  eexists. split; [reflexivity|]. split; [apply run_Inv, Inv_empty|].
  split; [apply run_TxInv; [apply Inv_empty|apply TxInv_empty]|]. vm_compute. auto.
Qed.

(* ================================================================== the command runtime model (coq/Rt) *)
(* In the function-for-function model of command/executor.rs, stream.rs and context.rs (coq/Rt/Rt.v): dropping a
   Command value releases it whatever the drop glue of its tasks does meanwhile, and what has been released
   stays released through every later step of the runtime on any command at any nesting level - a dropped
   Command stays dropped, the flag of a task that is gone stays so, a closed receiver stays closed (so a
   sender the shell still holds can never deliver into released work).  For every fuel and every heap
   (coq/Rt/Perm.v, the frame principle instantiated with "what only ever moves one way"). *)
From Crux Require Rt.Rt Rt.Perm.
Theorem C13_rt_dropping_a_command_releases_it : forall f cid H,
  cid < length (Rt.cmds H) -> Rt.c_alive (Rt.gcmd cid (Rt.drop_cmd (S f) cid H)) = false.
Proof. exact Perm.drop_cmd_dead. Qed.
(* One task: what the executor does to a task that completed, was aborted or was evicted (tasks.remove(id);
   finished.store(true); wake_join_handles(); drop(task)) releases it - its slab slot is vacant, its flag says finished
   and gone - for every heap; the wakes of the join waiters and the drop of its future never put anything back into any
   command's task table (Rt/TaskRelease.v: they leave every table alone or empty it). *)
From Crux Require Rt.TaskRelease.
Theorem C13_rt_finished_task_is_released : forall cid s t H,
  Rt.slab_get s (Rt.gcmd cid (Rt.finish_task cid s t H)) = None /\
  Rt.tf_alive (Rt.gtf (Rt.t_uid t) (Rt.finish_task cid s t H)) = false /\
  Rt.tf_fin (Rt.gtf (Rt.t_uid t) (Rt.finish_task cid s t H)) = true.
Proof. exact TaskRelease.finish_task_releases. Qed.
(* ... and a finished top-level command is released by the executor: its task slot is freed and the Command dropped *)
From Crux Require Rt.Host Rt.CoreOrd.
Theorem C13_rt_finished_command_is_released_by_the_executor : forall FUEL f q k cid H1,
  Host.xget q (Host.k_slab k) = Some cid -> Rt.poll_next FUEL cid (Rt.WExec q) (Host.k_H k) = Some (Rt.PNDone, H1) ->
  cid < length (Rt.cmds H1) ->
  exists k', Host.xrun_task FUEL (S f) q k = Some k' /\ Host.xget q (Host.k_slab k') = None /\
             Rt.c_alive (Rt.gcmd cid (Host.k_H k')) = false.
Proof. exact CoreOrd.xrun_task_done_releases. Qed.
Theorem C13_rt_released_stays_released : forall fuel cid H H',
  Rt.settle fuel cid H = Some H' ->
  (forall c, c < length (Rt.cmds H) -> Rt.c_alive (Rt.gcmd c H) = false -> Rt.c_alive (Rt.gcmd c H') = false) /\
  (forall u, u < length (Rt.tfl H) -> Rt.tf_alive (Rt.gtf u H) = false -> Rt.tf_alive (Rt.gtf u H') = false) /\
  (forall ch, Rt.ch_rx (Rt.gch ch H) = false -> Rt.ch_rx (Rt.gch ch H') = false).
Proof.
  intros fuel cid H H' E. pose proof (Perm.perm_settle fuel cid H H' E) as P.
  split; [exact (Perm.pm_dead _ _ P) | split; [exact (Perm.pm_gone _ _ P) | exact (Perm.pm_rx _ _ P)]].
Qed.
Theorem C13_rt_released_stays_released_poll_next : forall fuel cid w H r H',
  Rt.poll_next fuel cid w H = Some (r, H') ->
  (forall c, c < length (Rt.cmds H) -> Rt.c_alive (Rt.gcmd c H) = false -> Rt.c_alive (Rt.gcmd c H') = false) /\
  (forall u, u < length (Rt.tfl H) -> Rt.tf_alive (Rt.gtf u H) = false -> Rt.tf_alive (Rt.gtf u H') = false) /\
  (forall ch, Rt.ch_rx (Rt.gch ch H) = false -> Rt.ch_rx (Rt.gch ch H') = false).
Proof.
  intros fuel cid w H r H' E. pose proof (Perm.perm_poll_next fuel cid w H r H' E) as P.
  split; [exact (Perm.pm_dead _ _ P) | split; [exact (Perm.pm_gone _ _ P) | exact (Perm.pm_rx _ _ P)]].
Qed.

(* ================================================================== legacy timers *)
Definition C13_cleared_set_full_statement : Prop :=
  forall acts first, length (tm_cleared (trun (timers_init first) acts)) <= length (tm_pending (trun (timers_init first) acts)).

(* Proved: the cleared set is bounded by the waiting timers plus the clears of timers nobody was waiting on *)
Theorem C13_cleared_set_bound_partial : forall acts first,
  let t := trun (timers_init first) acts in
  length (tm_cleared t) <= length (tm_pending t) + length (tm_stale t).
Proof. intros acts first t. apply cleared_bound. apply trun_TInv. apply TInv_init. Qed.

(* Refutation 4 (class cleared_timer_id_kept_for_ever): set a timer, let it fire, clear it. *)
Theorem C13_cleared_set_refuted : ~ C13_cleared_set_full_statement.
Proof. intros H. specialize (H [TSet; TRespond 1%N; TClear 1%N] 1%N). vm_compute in H. lia. Qed.

(* non-vacuity of the partial theorems: a run in which one-shots are registered, answered and released *)
Example C13_nonvacuous : nonvacuous_run = true /\
  map (fun o => o_events o) (snd (run heap_empty [AIssue 3 KMany (Some 1) false; AResolve 0 5%N; APoll; AResolve 0 6%N]))
    = [[]; []; [(3, 5%N); (3, ENDED)]; []].
Proof. split; vm_compute; reflexivity. Qed.
