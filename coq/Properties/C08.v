(* C08 - concurrent shells lose nothing.  Statements only.

   Models: Conc/v (P1 executor slot protocol), Conc/v (P2 waker / eviction protocol),
   Conc/v (P3 event application): small-step interleaving semantics, sequentially
   consistent, one label per atomic shared access (a mutex / RwLock region is one step), a
   program counter per thread, thread / task / clone tables indexed by nat (any number of each).
   [reachable s] = some sequence of labels (an interleaving) leads from [init] to [s]; every
   theorem below is for ALL reachable states, proved by an inductive invariant over the step
   relation in Conc/*Proofs.v (no enumeration, no bound).

   Not claimed (and not what the property asks): that the effects one call returns were caused
   by that call's input (return values are not linearisable); anything about weak memory (the
   models are SC; `Arc::strong_count` is a Relaxed load and the repaired code adds an Acquire
   fence for that reason); termination of the re-queue loop on `Unavailable` (liveness). *)
From Coq Require Import List Arith Bool.
From Crux Require Conc.Waker Conc.WakerProofs Conc.Events Conc.EventsProofs Conc.Slots Conc.SlotsProofs.
Import ListNotations.

(* ================= P1: executor slot protocol (capability/executor.rs) ================= *)

(* a task is polled by at most one thread at a time *)
Theorem C08_single_poller : forall s, Slots.reachable s -> forall t1 t2 fs1 fs2 k,
  Slots.pcs s t1 = Slots.Polling fs1 k -> Slots.pcs s t2 = Slots.Polling fs2 k -> t1 = t2.
Proof. exact SlotsProofs.single_poller. Qed.

Theorem C08_polled_slot_is_taken : forall s, Slots.reachable s -> forall t fs k,
  Slots.pcs s t = Slots.Polling fs k -> Slots.slots s k = Slots.STaken.
Proof. exact SlotsProofs.polled_slot_is_taken. Qed.

(* no lost wake: [pend s k] says that an id k was sent to the ready queue and that since then no
   poll of slot k has started and no runner has found the slot vacant (task completed).  Such an
   id is still in the ready queue or held by a thread that is about to run it or to re-queue it. *)
Theorem C08_no_lost_wake : forall s, Slots.reachable s -> forall k, Slots.pend s k = true ->
  In k (Slots.ready s) \/ exists t, Slots.holds (Slots.pcs s t) k.
Proof. exact SlotsProofs.no_lost_wake. Qed.

(* when every call has returned both queues and the effect channel are empty, and every wake-up
   ever sent has been followed by a poll that started after it (or the task was gone) *)
Theorem C08_quiescent_at_join : forall s, Slots.reachable s -> Slots.all_returned s ->
  Slots.ready s = [] /\ Slots.spawnq s = 0 /\ Slots.effs s = [] /\ forall k, Slots.pend s k = false.
Proof. exact SlotsProofs.quiescent_at_join. Qed.

(* each effect is in the channel or was returned by exactly one drain; none is duplicated *)
Theorem C08_effect_once : forall s, Slots.reachable s ->
  map snd (Slots.rets s) ++ Slots.effs s = Slots.emitted s /\ NoDup (Slots.emitted s).
Proof. exact SlotsProofs.effect_once. Qed.

Theorem C08_effects_returned_exactly_once : forall s, Slots.reachable s -> Slots.all_returned s ->
  map snd (Slots.rets s) = Slots.emitted s /\ NoDup (map snd (Slots.rets s)).
Proof. exact SlotsProofs.effects_returned_exactly_once. Qed.

Theorem C08_effects_ok_sound : forall s, Slots.reachable s -> Slots.all_returned s ->
  Slots.C08_effects_ok (Slots.emitted s) (map snd (Slots.rets s)) = true.
Proof. exact SlotsProofs.effects_ok_sound. Qed.

(* non-vacuity: the contended path (Unavailable, re-queue, second runner polls) is reachable *)
Example C08_nonvacuous_contended : exists s, Slots.run SlotsProofs.contended Slots.init = Some s /\
  Slots.pcs s 1 = Slots.Polling false 0 /\ Slots.pcs s 0 = Slots.SpawnLoop true /\ Slots.slots s 0 = Slots.STaken /\ Slots.pend s 0 = false.
Proof. exact SlotsProofs.contended_reachable. Qed.


(* ================= P2: waker / eviction protocol (command/executor.rs) ================= *)

(* The code as it was (woken.load(), then Arc::strong_count()) evicts a task whose wake-up has
   been sent: the four steps of the waking thread fall between the runner's two loads. *)
Theorem C08_evict_refuted : exists s, Waker.run Waker.WokenFirst WakerProofs.witness Waker.init = Some s /\
  Waker.r s = Waker.RDone Waker.Cancelled /\ Waker.sends s = 1 /\ Waker.woken s = true /\
  Waker.ld_woken s = Some false /\ Waker.ld_count s = Some 1.
Proof. exact WakerProofs.evict_refuted_woken_first. Qed.

(* The repaired order (Arc::strong_count(), then woken.load()): in every reachable state of every
   interleaving, with any number of clones and waking threads, an evicted task was never sent a
   wake-up through this generation and no clone of its waker is left. *)
Theorem C08_evict_safe : forall s, Waker.reachable Waker.CountFirst s ->
  Waker.r s = Waker.RDone Waker.Cancelled -> Waker.sends s = 0 /\ Waker.live (Waker.hs s) = 0 /\ Waker.own s = false.
Proof. exact WakerProofs.evict_safe_count_first. Qed.

(* ... and nothing can happen in that generation afterwards: no label is enabled *)
Theorem C08_evicted_is_final : forall s l, Waker.reachable Waker.CountFirst s -> Waker.r s = Waker.RDone Waker.Cancelled ->
  Waker.step Waker.CountFirst l s = None.
Proof. exact WakerProofs.evicted_is_final. Qed.

(* count = 1 + the runner's handle + undropped clones, for either order *)
Theorem C08_count_is_one_plus_clones : forall o s, Waker.reachable o s ->
  Waker.count s = 1 + WakerProofs.b2n (Waker.own s) + Waker.live (Waker.hs s).
Proof. exact WakerProofs.count_is_one_plus_clones. Qed.

(* no false retention at the protocol level: an abandoned pending task is evicted *)
Theorem C08_evicts_abandoned : forall o s, Waker.reachable o s -> Waker.r s = Waker.RPolled true -> Waker.woken s = false ->
  Waker.live (Waker.hs s) = 0 ->
  exists s', Waker.run o [Waker.RDropOwn; Waker.RLoad1; Waker.RLoad2] s = Some s' /\ Waker.r s' = Waker.RDone Waker.Cancelled.
Proof. exact WakerProofs.evicts_abandoned. Qed.

Theorem C08_refuted_schedule_harmless_after_fix : exists s, Waker.run Waker.CountFirst WakerProofs.witness Waker.init = Some s /\
  Waker.r s = Waker.RDone Waker.Suspended /\ Waker.ld_woken s = Some true /\ Waker.ld_count s = Some 2.
Proof. exact WakerProofs.witness_harmless_count_first. Qed.

Theorem C08_evict_ok_sound : forall s, Waker.reachable Waker.CountFirst s ->
  Waker.C08_evict_ok (Waker.obs_decision s) (Waker.sends s) = true.
Proof. exact WakerProofs.evict_ok_sound. Qed.


(* ================= P3: event application (core/mod.rs) ================= *)

(* The code as it was (receive(), then model.write()): two callers take E(1,0) and E(1,1), sent in
   that order by one task, and apply them in the opposite order. *)
Theorem C08_event_order_refuted : exists s, Events.run Events.PopThenLock EventsProofs.witness Events.init = Some s /\
  Events.pcs s 0 = Events.TIdle /\ Events.pcs s 1 = Events.TIdle /\ Events.chan s = [] /\
  Events.log s = [Events.Direct 0; Events.Direct 1; Events.Emitted 1 1; Events.Emitted 1 0] /\
  Events.proj 1 (Events.log s) = [1; 0] /\ Events.proj 1 (Events.log s) <> seq 0 (Events.nxt s 1).
Proof. exact EventsProofs.event_order_refuted. Qed.

(* The repaired code (model.write(), then receive()): at every reachable state the log followed
   by the queued events is, for every task, exactly the events it has sent, in the order sent:
   the log is an interleaving of the per-task emission sequences. *)
Theorem C08_event_order : forall s, Events.reachable Events.PopUnderLock s ->
  forall k, Events.proj k (Events.log s ++ Events.chan s) = seq 0 (Events.nxt s k).
Proof. exact EventsProofs.event_order. Qed.

Theorem C08_event_conservation : forall s, Events.reachable Events.PopUnderLock s ->
  forall k, length (Events.proj k (Events.log s)) + length (Events.proj k (Events.chan s)) = Events.nxt s k.
Proof. exact EventsProofs.event_conservation. Qed.

Theorem C08_events_quiescent : forall s, Events.reachable Events.PopUnderLock s ->
  (forall t, Events.pcs s t = Events.TIdle) -> Events.chan s = [].
Proof. exact EventsProofs.quiescent_when_idle. Qed.

Theorem C08_events_exactly_once_in_order : forall s, Events.reachable Events.PopUnderLock s ->
  (forall t, Events.pcs s t = Events.TIdle) -> forall k, Events.proj k (Events.log s) = seq 0 (Events.nxt s k).
Proof. exact EventsProofs.events_exactly_once_in_order. Qed.

(* view() shows the model after a prefix of the log *)
Theorem C08_view_consistent : forall s, Events.reachable Events.PopUnderLock s ->
  forall n v, In (n, v) (Events.views s) -> v = firstn n (Events.log s) /\ n <= length (Events.log s).
Proof. exact EventsProofs.view_consistent. Qed.

Theorem C08_view_is_fold_of_prefix : forall (M : Type) (update : M -> Events.ev -> M) (m0 : M) s,
  Events.reachable Events.PopUnderLock s -> forall n v, In (n, v) (Events.views s) ->
  fold_left update v m0 = fold_left update (firstn n (Events.log s)) m0.
Proof. exact EventsProofs.view_is_fold_of_prefix. Qed.

Theorem C08_log_ok_sound : forall s, Events.reachable Events.PopUnderLock s -> (forall t, Events.pcs s t = Events.TIdle) ->
  forall ks, Events.C08_log_ok (map (fun k => (k, Events.nxt s k)) ks) (Events.log s) = true.
Proof. exact EventsProofs.log_ok_sound. Qed.

Theorem C08_refuted_calls_in_order_after_fix : exists s, Events.run Events.PopUnderLock EventsProofs.witness_fixed Events.init = Some s /\
  Events.log s = [Events.Direct 0; Events.Direct 1; Events.Emitted 1 0; Events.Emitted 1 1].
Proof. exact EventsProofs.witness_fixed_in_order. Qed.

