(* C08 - concurrent shells lose nothing.  Statements only; models in Conc/*.v (small-step
   interleaving semantics, sequentially consistent, one label per atomic shared access),
   proofs in Conc/*Proofs.v (inductive invariants over the step relation: every interleaving,
   any number of threads, clones and tasks). *)
From Coq Require Import List Arith Bool.
From Crux Require Import Conc.Waker Conc.WakerProofs.
Import ListNotations.

(* ---------- P2: waker / eviction protocol of command/executor.rs ---------- *)

(* The code as it was (woken.load(), then Arc::strong_count()) evicts a task whose wake-up has
   been sent: 4 steps of the waking thread between the runner's two loads. *)
Theorem C08_evict_refuted : exists s, run WokenFirst witness init = Some s /\
  r s = RDone Cancelled /\ sends s = 1 /\ woken s = true /\
  ld_woken s = Some false /\ ld_count s = Some 1.
Proof. exact evict_refuted_woken_first. Qed.

(* The repaired order (Arc::strong_count(), then woken.load()): in every reachable state of every
   interleaving, with any number of clones and waking threads, an evicted task was never sent a
   wake-up through this generation and no clone of its waker is left. *)
Theorem C08_evict_safe : forall s, reachable CountFirst s ->
  r s = RDone Cancelled -> sends s = 0 /\ live (hs s) = 0 /\ own s = false.
Proof. exact evict_safe_count_first. Qed.

Theorem C08_evicted_is_final : forall s l, reachable CountFirst s -> r s = RDone Cancelled ->
  step CountFirst l s = None.
Proof. exact evicted_is_final. Qed.

Theorem C08_count_is_one_plus_clones : forall o s, reachable o s ->
  count s = 1 + b2n (own s) + live (hs s).
Proof. exact count_is_one_plus_clones. Qed.

Theorem C08_evicts_abandoned : forall o s, reachable o s -> r s = RPolled true -> woken s = false ->
  live (hs s) = 0 ->
  exists s', run o [RDropOwn; RLoad1; RLoad2] s = Some s' /\ r s' = RDone Cancelled.
Proof. exact evicts_abandoned. Qed.

Theorem C08_refuted_schedule_harmless_after_fix : exists s, run CountFirst witness init = Some s /\
  r s = RDone Suspended /\ ld_woken s = Some true /\ ld_count s = Some 2.
Proof. exact witness_harmless_count_first. Qed.

Theorem C08_evict_ok_sound : forall s, reachable CountFirst s ->
  C08_evict_ok (obs_decision s) (sends s) = true.
Proof. exact evict_ok_sound. Qed.
