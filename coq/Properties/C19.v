(* C19 - time values convert exactly or are rejected explicitly.  Statements only. *)
From Coq Require Import List ZArith Bool.
From Crux Require Import Base.Res Time.Conv Time.ConvProofs.
Import ListNotations.
Open Scope Z_scope.

(* Full statement: for every conversion and every input constructible in the source type, the
   model returns exactly the denoted value when it is representable in the target type and rejects
   (error value or documented panic) when it is not. *)
Definition C19_full_statement : Prop :=
  forall op a b, valid_in op a b = true -> C19_ok op a b (conv op a b) = true.

(* Proved part: everything outside the one listed class (an Instant carrying nanos >= 1e9, which
   only unvalidated deserialisation can create). *)
Theorem C19_exact_or_rejected_partial : forall op a b,
  valid_in op a b = true -> known_invalid_nanos op a b = false ->
  C19_ok op a b (conv op a b) = true.
Proof. exact model_ok. Qed.

(* The full statement is false of the faithful model; the witness is replayed on the code. *)
Theorem C19_invalid_nanos_refuted :
  exists s ns, valid_in OInstantDeser s ns = true /\ spec OInstantDeser s ns = None /\
    instant_deser s ns = Ok (s, ns) /\ systime_of_instant s ns = Ok (3, 0).
Proof. exact invalid_nanos_refuted. Qed.

Theorem C19_std_duration_roundtrip : forall n, 0 <= n < U64 ->
  bind (std_of_dur n) (fun p => dur_of_std (fst p) (snd p)) = Ok n.
Proof. exact std_dur_roundtrip. Qed.

Theorem C19_duration_std_roundtrip : forall s ns, 0 <= s -> 0 <= ns < NPS -> s * NPS + ns < U64 ->
  bind (dur_of_std s ns) std_of_dur = Ok (s, ns).
Proof. exact dur_std_roundtrip. Qed.

Theorem C19_std_duration_overflow_rejected : forall s ns, 0 <= s -> 0 <= ns < NPS ->
  U64 <= s * NPS + ns -> dur_of_std s ns = Panic.
Proof. exact dur_std_rejects. Qed.

Theorem C19_timedelta_roundtrip : forall n, 0 <= n < U64 ->
  bind (timedelta_of_dur n) dur_of_timedelta = Ok n.
Proof. exact td_dur_roundtrip. Qed.

Theorem C19_timedelta_negative_rejected : forall t, t < 0 -> dur_of_timedelta t = Err E_InvalidDuration.
Proof. exact td_negative_rejected. Qed.

Theorem C19_systemtime_roundtrip : forall s ns, 0 <= s <= I64MAX -> 0 <= ns < NPS ->
  bind (instant_of_systime s ns) (fun p => systime_of_instant (fst p) (snd p)) = Ok (s, ns).
Proof. exact sys_instant_roundtrip. Qed.

Theorem C19_datetime_roundtrip : forall s ns, 0 <= s <= TS_MAX -> 0 <= ns < NPS ->
  bind (datetime_of_instant s ns) (fun p => instant_of_datetime (fst p) (snd p)) = Ok (s, ns).
Proof. exact dt_instant_roundtrip. Qed.

(* non-vacuity: the hypotheses are met by concrete boundary inputs of several conversions *)
Example C19_nonvacuous :
  valid_in ODurOfStd 18446744073 709551615 = true /\ known_invalid_nanos ODurOfStd 18446744073 709551615 = false /\
  valid_in OInstantOfDt 1483228799 1999999999 = true /\ valid_in ODurOfTd (-5) 0 = true.
Proof. vm_compute. repeat split. Qed.
