(* C13 case evaluation.  Three kinds of cases:
   - task release (harness bridge_arity, long histories): the request-layer model predicts, after every step,
     how many task futures still exist; compared with the drop counters (created - dropped) and the executor /
     command live-task hooks; bound: after the tasks have run, live tasks <= requests that can still be resolved;
   - registry release (harness bridge_twin, long histories): on top of the exact C09 comparison (ids, registry
     snapshots), one-shot entries = outstanding one-shot requests after every call, a response releases the
     one-shot entry it addresses; notification entries and finished-stream entries are the two known classes;
   - legacy timers (harness bridge_timers): size of CLEARED_TIMER_IDS after every call against Timer.v.
   Executable definitions only. *)
From Coq Require Import List Arith Bool ZArith NArith.
From Crux Require Import Base.Res Bridge.Slab Bridge.Bridge Bridge.Resolve Bridge.Arity Bridge.Twin Bridge.Timer.
Import ListNotations.
Close Scope N_scope.
Open Scope nat_scope.

(* known classes, as bits of the mask reported per case *)
Definition K_NEVER_ENTRIES : N := 1%N.        (* registry keeps an entry for every notification *)
Definition K_FINISHED_STREAM : N := 2%N.      (* registry keeps the entry of a stream whose consumer has ended *)
Definition K_LEGACY_STUCK : N := 4%N.         (* legacy capability task whose request can no longer be resolved is never released *)
Definition K_STALE_CLEAR : N := 8%N.          (* Time::clear of a timer nobody waits on leaves its id in the global set *)

(* ------------------------------------------------------------------ task release *)
Definition live_count (h : heap) : nat := length (filter ch_rx (h_chans h)).
Definition outstanding (h : heap) : nat :=
  length (filter (fun q => match closure_of (q_res q) with Some _ => true | None => false end) (h_reqs h)).
(* a legacy consumer that can never finish: alive, nothing buffered, its sender gone *)
Definition legacy_stuck (h : heap) : nat :=
  length (filter (fun c => ch_rx c && ch_legacy c && negb (ch_tx c) && match ch_buf c with [] => true | _ => false end) (h_chans h)).

Record rstep : Type := mkRstep { rs_step : ostep; rs_tok : Z; rs_exec : Z }.

(* did the tasks run at the end of this step (only then are the bounds meant to hold)?  A bridge / core call that
   fails before the core runs (rejected resolution, undecodable body) leaves the tasks untouched until the next call. *)
Definition tasks_ran (auto_poll : bool) (a : oact) (code : Z) : bool :=
  match a with
  | OPoll => true
  | ORun => auto_poll
  | OResolve _ _ | OSer _ _ | ODrop _ => auto_poll && Z.eqb code 0%Z
  | _ => false
  end.

(* (exact, ok, known mask) of one step *)
Definition release_step (auto_poll legacy : bool) (h : heap) (st : rstep) : heap * (bool * bool * N) :=
  let '(h1, code, evs) := model_step auto_poll legacy h (rs_step st) in
  let live := Z.of_nat (live_count h1) in
  let exact := step_exact code evs (rs_step st) && Z.eqb live (rs_tok st) in
  let quiescent := tasks_ran auto_poll (s_act (rs_step st)) code in
  let stuck := Z.of_nat (legacy_stuck h1) in
  (* bound: once the tasks have run, live task futures <= requests that can still be resolved (+ the known class) *)
  let bound := negb quiescent || Z.leb (rs_tok st) (Z.of_nat (outstanding h1) + stuck)%Z in
  (* the hosting executor holds no more tasks than there are task futures, and none when there are none *)
  let exec_ok := Z.leb 0%Z (rs_exec st) && (if legacy then Z.eqb (rs_exec st) (rs_tok st)
                                           else Z.leb (rs_exec st) (rs_tok st) && Bool.eqb (Z.eqb (rs_exec st) 0%Z) (Z.eqb (rs_tok st) 0%Z)
                                                || negb quiescent) in
  (h1, (exact, bound && exec_ok && Z.leb 0%Z (rs_tok st), if Z.ltb 0%Z stuck then K_LEGACY_STUCK else 0%N)).

Fixpoint release_case (auto_poll legacy : bool) (h : heap) (n : N) (steps : list rstep) (acc : bool * bool * N * N * N)
  : bool * bool * N * N * N :=
  match steps with
  | [] => acc
  | st :: rest =>
      let '(h1, (e1, o1, k1)) := release_step auto_poll legacy h st in
      let '(ex, ok, iex, iok, mask) := acc in
      release_case auto_poll legacy h1 (n + 1)%N rest
        (ex && e1, ok && o1, if ex && negb e1 then n else iex, if ok && negb o1 then n else iok, N.lor mask k1)
  end.

Definition release_diag (c : bool * bool * list rstep) : list N :=
  let '(ex, ok, iex, iok, mask) := release_case (fst (fst c)) (snd (fst c)) heap_empty 0%N (snd c) (true, true, 0%N, 0%N, 0%N) in
  if negb ok then [2%N; iok; mask] else if ex then [0%N; 0%N; mask] else [1%N; iex; mask].
Definition release_diags (cs : list (bool * bool * list rstep)) : list N := flat_map release_diag cs.

(* ------------------------------------------------------------------ registry release *)
Record xcall : Type := mkX { x_call : ocall; x_exec : Z; x_tok : Z; x_texec : Z; x_ttok : Z }.

Definition count_kind (k : rkind) (s : list (nat * rkind)) : nat := length (filter (fun p => rkind_eqb (snd p) k) s).

(* bookkeeping from the observations: arity of every request by arrival number, outstanding one-shots *)
Definition reg_track (kinds : list rkind) (once_out : nat) (o : ocall) : list rkind * nat :=
  let released :=
    match o_tin o, o_tout o with
    | Some (OTResolve s _), OTEffects _ => match nth_error kinds s with Some KOnce => 1 | _ => 0 end
    | Some (OTDrop s), _ => match nth_error kinds s with Some KOnce => 1 | _ => 0 end
    | _, _ => 0
    end in
  let new := match o_tout o with OTEffects l => map snd l | _ => [] end in
  (kinds ++ new, once_out - released + length (filter (fun k => rkind_eqb k KOnce) new)).

Definition responded_id (o : ocall) : option nat := match o_in o with OResp rid _ => Some rid | _ => None end.

Definition reg_call_ok (prev : list (nat * rkind)) (once_out : nat) (x : xcall) : bool * N :=
  let o := x_call x in
  let snap := o_snap o in
  (* one-shot entries are exactly the outstanding one-shot requests *)
  let once_exact := Nat.eqb (count_kind KOnce snap) once_out in
  (* a response to a one-shot's id releases the entry (or the id is reissued in the same call) *)
  let released :=
    match responded_id o with
    | Some rid =>
        match snap_kind prev rid with
        | Some KOnce => negb (mem_nat rid (map fst snap)) ||
                        match o_bout o with OBOk reqs => mem_nat rid (map fst reqs) | _ => false end
        | _ => true
        end
    | None => true
    end in
  (* the bridge hosts the same core: same task futures, same executor occupancy as the typed twin *)
  let same := Z.eqb (x_exec x) (x_texec x) && Z.eqb (x_tok x) (x_ttok x) in
  let k1 := if Nat.ltb 0 (count_kind KNever snap) then K_NEVER_ENTRIES else 0%N in
  let k2 := match o_bout o, responded_id o with
            | OBErr 4%Z, Some rid => if mem_nat rid (map fst snap) then K_FINISHED_STREAM else 0%N
            | _, _ => 0%N
            end in
  (once_exact && released && same, N.lor k1 k2).

Fixpoint reg_case (prev : list (nat * rkind)) (kinds : list rkind) (once_out : nat) (n : N) (xs : list xcall) (acc : bool * N * N)
  : bool * N * N :=
  match xs with
  | [] => acc
  | x :: rest =>
      let '(kinds1, once1) := reg_track kinds once_out (x_call x) in
      let '(o1, k1) := reg_call_ok prev once1 x in
      let '(ok, iok, mask) := acc in
      reg_case (o_snap (x_call x)) kinds1 once1 (n + 1)%N rest (ok && o1, if ok && negb o1 then n else iok, N.lor mask k1)
  end.

(* the harness sends registry snapshots as differences (removed ids, added entries) to keep case files small;
   the full snapshot after every call is rebuilt here *)
Record dcall : Type := mkD { d_call : ocall; d_removed : list nat; d_added : list (nat * rkind);
                             d_exec : Z; d_tok : Z; d_texec : Z; d_ttok : Z }.
Fixpoint insert_snap (p : nat * rkind) (l : list (nat * rkind)) : list (nat * rkind) :=
  match l with
  | [] => [p]
  | x :: r => if Nat.ltb (fst p) (fst x) then p :: l else x :: insert_snap p r
  end.
Definition apply_delta (prev : list (nat * rkind)) (removed : list nat) (added : list (nat * rkind)) : list (nat * rkind) :=
  fold_right insert_snap (filter (fun p => negb (mem_nat (fst p) removed)) prev) added.
Definition with_snap (o : ocall) (snap : list (nat * rkind)) : ocall :=
  mkO (o_in o) (o_tin o) (o_tout o) (o_bout o) (o_tview o) (o_bview o) snap.
Fixpoint rebuild (prev : list (nat * rkind)) (ds : list dcall) : list xcall :=
  match ds with
  | [] => []
  | d :: r => let snap := apply_delta prev (d_removed d) (d_added d) in
              mkX (with_snap (d_call d) snap) (d_exec d) (d_tok d) (d_texec d) (d_ttok d) :: rebuild snap r
  end.

Definition reg_diag (c : aview * list xcall) : list N :=
  let obs := map x_call (snd c) in
  let '(ok, iok, mask) := reg_case [] [] 0 0%N (snd c) (true, 0%N, 0%N) in
  if negb ok then [2%N; iok; mask]
  else match Twin.diag (fst c, obs) with
       | v :: st :: _ => [if N.eqb v 0 then 0%N else 1%N; st; mask]
       | _ => [1%N; 0%N; mask]
       end.
Definition reg_diags (cs : list (aview * list dcall)) : list N :=
  flat_map (fun c => reg_diag (fst c, rebuild [] (snd c))) cs.

(* C09 on LONG sessions (registry occupancy beyond the slab's initial capacity of 1024): the same difference-coded
   histories, judged by C09's own verdict (0 agree with the model; 1 model differs; 2 C09_ok fails) *)
Definition long_diags (cs : list (aview * list dcall)) : list N :=
  flat_map (fun c => Twin.diag (fst c, map x_call (rebuild [] (snd c)))) cs.

(* ------------------------------------------------------------------ legacy timers *)
(* a case: first id the counter will hand out, the actions, per action the observed size of the cleared set
   (relative to its size at the start of the case) and the number of waiting timers the harness knows of *)
Fixpoint timer_case (t : timers) (n : N) (steps : list (taction * Z * Z)) (acc : bool * bool * N * N * N) : bool * bool * N * N * N :=
  match steps with
  | [] => acc
  | (a, cleared, waiting) :: rest =>
      let t' := tstep t a in
      let stale := Z.of_nat (length (tm_stale t')) in
      let e1 := Z.eqb (Z.of_nat (length (tm_cleared t'))) cleared in
      (* bound on the implementation's numbers: cleared <= waiting timers (+ stale clears, the known class) *)
      let o1 := Z.leb cleared (waiting + stale)%Z && Z.leb 0%Z cleared in
      let '(ex, ok, iex, iok, mask) := acc in
      timer_case t' (n + 1)%N rest
        (ex && e1, ok && o1, if ex && negb e1 then n else iex, if ok && negb o1 then n else iok,
         N.lor mask (if Z.ltb 0%Z stale then K_STALE_CLEAR else 0%N))
  end.
Definition timer_diag (c : N * list (taction * Z * Z)) : list N :=
  let '(ex, ok, iex, iok, mask) := timer_case (timers_init (fst c)) 0%N (snd c) (true, true, 0%N, 0%N, 0%N) in
  if negb ok then [2%N; iok; mask] else if ex then [0%N; 0%N; mask] else [1%N; iex; mask].
Definition timer_diags (cs : list (N * list (taction * Z * Z))) : list N := flat_map timer_diag cs.
