(* C02 case evaluation: replays the actions a harness case performed on the request-layer model
   (Resolve.v) and compares, step by step, the result of every resolution and the continuation events.
   Executable definitions only. *)
From Coq Require Import List Arith Bool ZArith NArith.
From Crux Require Import Base.Res Bridge.Slab Bridge.Bridge Bridge.Resolve.
Import ListNotations.

Inductive oact : Type :=
| ORun                                   (* an event was processed; only new requests appear *)
| OResolve (k : nat) (v : N)             (* typed Request::resolve / Core::resolve of request number k *)
| OSer (k : nat) (body : option N)       (* Bridge::handle_response reaching request k; None = undecodable body *)
| OSerVacant                             (* handle_response with an id nobody is registered under *)
| ODrop (k : nat)                        (* the shell drops request k *)
| OPoll | OAbort | ODropAll.

Record ostep : Type := mkStep {
  s_act : oact;
  s_res : Z;                                     (* 0 ok, error code, 9 panic *)
  s_events : list (nat * N);                     (* continuation events, stably sorted by owner *)
  s_new : list (nat * rkind * option nat) }.     (* requests that appeared: owner, arity, consumer's limit *)

Definition res_code (r : res unit) : Z :=
  match r with Ok _ => 0%Z | Err e => e | Panic => 9%Z | OutOfFuel => 9%Z end.

(* stable insertion sort by owner *)
Fixpoint insert_ev (e : nat * N) (l : list (nat * N)) : list (nat * N) :=
  match l with
  | [] => [e]
  | x :: r => if Nat.leb (fst e) (fst x) then e :: l else x :: insert_ev e r
  end.
Definition sort_evs (l : list (nat * N)) : list (nat * N) := fold_right insert_ev [] l.

Definition issue_all (legacy : bool) (h : heap) (news : list (nat * rkind * option nat)) : heap :=
  fold_left (fun h n => fst (step h (AIssue (fst (fst n)) (snd (fst n)) (snd n) legacy))) news h.

Definition VACANT_RID : nat := 4000.

Definition primary (auto_poll : bool) (a : oact) : option action :=
  match a with
  | ORun => if auto_poll then Some APoll else None      (* Core::process_event runs every ready task *)
  | OResolve k v => Some (AResolve k v)
  | OSer k b => Some (ASerResolve k b)
  | OSerVacant => Some (ASerResolve VACANT_RID None)
  | ODrop k => Some (ADropReq k)
  | OPoll => Some APoll
  | OAbort => Some AAbort
  | ODropAll => Some ADropAll
  end.

Definition follows_with_poll (a : oact) : bool :=
  match a with OResolve _ _ | OSer _ _ | ODrop _ => true | _ => false end.

(* one observed step on the model: (heap after, result code, events) *)
Definition model_step (auto_poll legacy : bool) (h : heap) (st : ostep) : heap * Z * list (nat * N) :=
  let '(h1, code, evs) :=
    match primary auto_poll (s_act st) with
    | None => (h, 0%Z, [])
    | Some a =>
        let (h1, o) := step h a in
        let code := res_code (o_res o) in
        if auto_poll && follows_with_poll (s_act st) && Z.eqb code 0 then
          let (h2, o2) := step h1 APoll in (h2, code, o_events o2)
        else (h1, code, o_events o)
    end in
  (issue_all legacy h1 (s_new st), code, sort_evs evs).

Definition ev_eqb (a b : nat * N) : bool := Nat.eqb (fst a) (fst b) && N.eqb (snd a) (snd b).
Fixpoint evs_eqb (a b : list (nat * N)) : bool :=
  match a, b with
  | [], [] => true
  | x :: a', y :: b' => ev_eqb x y && evs_eqb a' b'
  | _, _ => false
  end.
Definition values_only (l : list (nat * N)) : list (nat * N) := filter (fun e => negb (N.eqb (snd e) ENDED)) l.

(* exact agreement of a step *)
Definition step_exact (code : Z) (evs : list (nat * N)) (st : ostep) : bool :=
  Z.eqb code (s_res st) && evs_eqb evs (s_events st).
(* the property's projection: accepted/rejected as the arity automaton says, and every continuation got
   exactly the values resolved into its own request, in order (end-of-stream marks and error codes aside) *)
Definition step_ok (code : Z) (evs : list (nat * N)) (st : ostep) : bool :=
  Bool.eqb (Z.eqb code 0) (Z.eqb (s_res st) 0) && negb (Z.eqb (s_res st) 9) &&
  evs_eqb (values_only evs) (values_only (s_events st)).

(* runs the case; returns (all exact, all ok, index of first inexact step, index of first not-ok step) *)
Fixpoint run_case (auto_poll legacy : bool) (h : heap) (n : N) (steps : list ostep) (acc : bool * bool * N * N)
  : bool * bool * N * N :=
  match steps with
  | [] => acc
  | st :: rest =>
      let '(h1, code, evs) := model_step auto_poll legacy h st in
      let '(ex, ok, iex, iok) := acc in
      let e1 := step_exact code evs st in
      let o1 := step_ok code evs st in
      run_case auto_poll legacy h1 (n + 1)%N rest
               (ex && e1, ok && o1, if ex && negb e1 then n else iex, if ok && negb o1 then n else iok)
  end.

Definition C02_ok (c : bool * bool * list ostep) : bool :=
  let '(_, ok, _, _) := run_case (fst (fst c)) (snd (fst c)) heap_empty 0%N (snd c) (true, true, 0%N, 0%N) in ok.

(* [verdict; first offending step]  0 agree, 1 model differs but C02_ok, 2 C02_ok fails *)
Definition diag (c : bool * bool * list ostep) : list N :=
  let '(ex, ok, iex, iok) := run_case (fst (fst c)) (snd (fst c)) heap_empty 0%N (snd c) (true, true, 0%N, 0%N) in
  if negb ok then [2%N; iok] else if ex then [0%N; 0%N] else [1%N; iex].
Definition diags (cs : list (bool * bool * list ostep)) : list N := flat_map diag cs.

(* the model's own trace of a case: the observed results/events replaced by the model's *)
Fixpoint model_trace (auto_poll legacy : bool) (h : heap) (steps : list ostep) : list ostep :=
  match steps with
  | [] => []
  | st :: rest =>
      let '(h1, code, evs) := model_step auto_poll legacy h st in
      mkStep (s_act st) code evs (s_new st) :: model_trace auto_poll legacy h1 rest
  end.
