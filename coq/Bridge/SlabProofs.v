(* Free-list invariant of the slab model and what insert / set / remove do to lookups. *)
From Coq Require Import List Arith Bool Lia.
From Crux Require Import Base.Res Bridge.Slab.
Import ListNotations.

Section SlabProofs.
Context {V : Type}.
Notation entry := (entry V).
Notation slab := (slab V).

(* ---------- upd ---------- *)
Lemma upd_length {A} (l : list A) k x : length (upd l k x) = length l.
Proof. revert k; induction l as [|h t IH]; intros [|k]; simpl; auto. Qed.

Lemma nth_error_upd_same {A} (l : list A) k x : k < length l -> nth_error (upd l k x) k = Some x.
Proof. revert k; induction l as [|h t IH]; intros [|k] H; simpl in *; try lia; auto. apply IH; lia. Qed.

Lemma nth_error_upd_other {A} (l : list A) k j x : j <> k -> nth_error (upd l k x) j = nth_error l j.
Proof.
  revert k j; induction l as [|h t IH]; intros [|k] [|j] H; simpl; auto; try congruence.
Qed.

Lemma nth_error_lt {A} (l : list A) k x : nth_error l k = Some x -> k < length l.
Proof. intros H. apply nth_error_Some. congruence. Qed.

(* ---------- the free list ---------- *)
Inductive chain (es : list entry) : nat -> list nat -> Prop :=
| chain_end : chain es (length es) []
| chain_cons k nx fl : nth_error es k = Some (Vacant nx) -> chain es nx fl -> chain es k (k :: fl).

Definition wf (s : slab) : Prop :=
  exists fl, chain (entries s) (next s) fl /\ NoDup fl /\
             (forall k nx, nth_error (entries s) k = Some (Vacant nx) -> In k fl) /\
             len s = count_occ_entries (entries s).

Lemma chain_in_vacant es k fl j : chain es k fl -> In j fl -> exists nx, nth_error es j = Some (Vacant nx).
Proof.
  induction 1 as [|k nx fl Hk Hc IH]; simpl; [tauto|].
  intros [->|Hin]; eauto.
Qed.

Lemma chain_at_len es fl : chain es (length es) fl -> fl = [].
Proof.
  inversion 1 as [|k nx fl' Hk Hc]; auto; subst.
  apply nth_error_lt in Hk. lia.
Qed.

Lemma chain_head es k fl : chain es k fl -> k = length es \/ exists nx fl', fl = k :: fl' /\ nth_error es k = Some (Vacant nx) /\ chain es nx fl'.
Proof. inversion 1; subst; eauto 6. Qed.

Lemma chain_upd_notin es k fl j x :
  chain es k fl -> ~ In j fl -> chain (upd es j x) k fl.
Proof.
  induction 1 as [|k nx fl Hk Hc IH]; intros Hn.
  - rewrite <- (upd_length es j x). constructor.
  - simpl in Hn. econstructor.
    + rewrite nth_error_upd_other; eauto.
    + apply IH. tauto.
Qed.

Lemma count_occ_app (l1 l2 : list entry) : count_occ_entries (l1 ++ l2) = count_occ_entries l1 + count_occ_entries l2.
Proof. induction l1 as [|[v|n] t IH]; simpl; auto. Qed.

Lemma count_occ_upd_vac_occ (l : list entry) k nx v :
  nth_error l k = Some (Vacant nx) -> count_occ_entries (upd l k (Occupied v)) = S (count_occ_entries l).
Proof.
  revert k; induction l as [|h t IH]; intros [|k] H; simpl in *; try discriminate.
  - inversion H; subst. reflexivity.
  - destruct h; simpl; rewrite (IH _ H); reflexivity.
Qed.

Lemma count_occ_upd_occ_vac (l : list entry) k nx v :
  nth_error l k = Some (Occupied v) -> S (count_occ_entries (upd l k (Vacant nx))) = count_occ_entries l.
Proof.
  revert k; induction l as [|h t IH]; intros [|k] H; simpl in *; try discriminate.
  - inversion H; subst. reflexivity.
  - destruct h; simpl; rewrite <- (IH _ H); reflexivity.
Qed.

Lemma count_occ_upd_occ_occ (l : list entry) k v v' :
  nth_error l k = Some (Occupied v) -> count_occ_entries (upd l k (Occupied v')) = count_occ_entries l.
Proof.
  revert k; induction l as [|h t IH]; intros [|k] H; simpl in *; try discriminate.
  - inversion H; subst. reflexivity.
  - destruct h; simpl; rewrite (IH _ H); reflexivity.
Qed.

Lemma wf_empty : wf slab_empty.
Proof.
  exists []. simpl. split; [exact (chain_end [])|]. split; [constructor|]. split; [|reflexivity].
  intros [|k] nx H; discriminate.
Qed.

(* ---------- lookups ---------- *)
Lemma get_lt (s : slab) k v : slab_get s k = Some v -> k < length (entries s).
Proof.
  unfold slab_get. destruct (nth_error (entries s) k) as [[?|?]|] eqn:E; try discriminate.
  intros _. eapply nth_error_lt; eauto.
Qed.

Lemma get_occ (s : slab) k v : slab_get s k = Some v <-> nth_error (entries s) k = Some (Occupied v).
Proof.
  unfold slab_get. destruct (nth_error (entries s) k) as [[?|?]|]; split; intros H; inversion H; auto.
Qed.

(* ---------- insert ---------- *)
Lemma insert_spec (s : slab) v : wf s ->
  exists s', slab_insert s v = Ok (next s, s') /\
             slab_get s (next s) = None /\
             slab_get s' (next s) = Some v /\
             (forall j, j <> next s -> slab_get s' j = slab_get s j) /\
             wf s'.
Proof.
  intros (fl & Hc & Hnd & Hall & Hlen).
  unfold slab_insert.
  destruct (chain_head _ _ _ Hc) as [Hfull | (nx & fl' & -> & Hk & Hc')].
  - (* push *)
    rewrite Hfull, Nat.eqb_refl. eexists; split; [reflexivity|].
    assert (fl = []) by (apply chain_at_len with (es := entries s); rewrite <- Hfull; exact Hc). subst fl.
    repeat split.
    + unfold slab_get. rewrite (proj2 (nth_error_None _ _)); auto.
    + unfold slab_get; simpl. rewrite nth_error_app2, Nat.sub_diag by lia. reflexivity.
    + intros j Hj. unfold slab_get; simpl.
      destruct (Nat.lt_ge_cases j (length (entries s))) as [Hlt|Hge].
      * rewrite nth_error_app1 by lia. reflexivity.
      * rewrite (proj2 (nth_error_None (entries s) j)) by lia.
        rewrite nth_error_app2 by lia.
        destruct (j - length (entries s)) as [|d] eqn:Ed; [lia|]. simpl. destruct d; reflexivity.
    + exists []. simpl. repeat split.
      * replace (S (length (entries s))) with (length (entries s ++ [Occupied v])) by (rewrite app_length; simpl; lia).
        constructor.
      * constructor.
      * intros k nx Hk.
        destruct (Nat.lt_ge_cases k (length (entries s))) as [Hlt|Hge].
        -- rewrite nth_error_app1 in Hk by lia. eapply Hall; eauto.
        -- rewrite nth_error_app2 in Hk by lia.
           destruct (k - length (entries s)) as [|d]; simpl in Hk; [discriminate|destruct d; discriminate].
      * rewrite count_occ_app. simpl. lia.
  - (* reuse the head of the free list *)
    pose proof (nth_error_lt _ _ _ Hk) as Hlt.
    destruct (Nat.eqb_spec (next s) (length (entries s))) as [E|_]; [lia|].
    rewrite Hk. eexists; split; [reflexivity|].
    inversion Hnd as [|? ? Hnin Hnd']; subst.
    repeat split.
    + unfold slab_get. rewrite Hk. reflexivity.
    + unfold slab_get; simpl. rewrite nth_error_upd_same by lia. reflexivity.
    + intros j Hj. unfold slab_get; simpl. rewrite nth_error_upd_other by auto. reflexivity.
    + exists fl'. simpl. repeat split.
      * apply chain_upd_notin; auto.
      * exact Hnd'.
      * intros k nx' Hk'.
        destruct (Nat.eq_dec k (next s)) as [->|Hne].
        -- rewrite nth_error_upd_same in Hk' by lia. discriminate.
        -- rewrite nth_error_upd_other in Hk' by auto.
           destruct (Hall _ _ Hk') as [E|Hin]; [congruence|exact Hin].
      * rewrite (count_occ_upd_vac_occ _ _ _ _ Hk). lia.
Qed.

(* ---------- set ---------- *)
Lemma set_spec (s : slab) k v v' : wf s -> slab_get s k = Some v ->
  slab_get (slab_set s k v') k = Some v' /\
  (forall j, j <> k -> slab_get (slab_set s k v') j = slab_get s j) /\
  next (slab_set s k v') = next s /\
  wf (slab_set s k v').
Proof.
  intros (fl & Hc & Hnd & Hall & Hlen) Hg.
  apply get_occ in Hg. pose proof (nth_error_lt _ _ _ Hg) as Hlt.
  unfold slab_set. rewrite Hg. repeat split.
  - unfold slab_get; simpl. rewrite nth_error_upd_same by lia. reflexivity.
  - intros j Hj. unfold slab_get; simpl. rewrite nth_error_upd_other by auto. reflexivity.
  - exists fl. simpl. repeat split; auto.
    + apply chain_upd_notin; auto. intros Hin.
      destruct (chain_in_vacant _ _ _ _ Hc Hin) as (nx & E). congruence.
    + intros j nx Hj. destruct (Nat.eq_dec j k) as [->|Hne].
      * rewrite nth_error_upd_same in Hj by lia. discriminate.
      * rewrite nth_error_upd_other in Hj by auto. eauto.
    + rewrite (count_occ_upd_occ_occ _ _ _ _ Hg). exact Hlen.
Qed.

(* ---------- remove ---------- *)
Lemma try_remove_spec (s : slab) k v : wf s -> slab_get s k = Some v ->
  exists s', slab_try_remove s k = (Some v, s') /\
             slab_get s' k = None /\
             (forall j, j <> k -> slab_get s' j = slab_get s j) /\
             next s' = k /\
             wf s'.
Proof.
  intros (fl & Hc & Hnd & Hall & Hlen) Hg.
  apply get_occ in Hg. pose proof (nth_error_lt _ _ _ Hg) as Hlt.
  unfold slab_try_remove. rewrite Hg. eexists; split; [reflexivity|].
  assert (Hnin : ~ In k fl).
  { intros Hin. destruct (chain_in_vacant _ _ _ _ Hc Hin) as (nx & E). congruence. }
  repeat split.
  - unfold slab_get; simpl. rewrite nth_error_upd_same by lia. reflexivity.
  - intros j Hj. unfold slab_get; simpl. rewrite nth_error_upd_other by auto. reflexivity.
  - exists (k :: fl). simpl. repeat split.
    + econstructor.
      * rewrite nth_error_upd_same by lia. reflexivity.
      * apply chain_upd_notin; auto.
    + constructor; auto.
    + intros j nx Hj. destruct (Nat.eq_dec j k) as [->|Hne]; [left; reflexivity|right].
      rewrite nth_error_upd_other in Hj by auto. eauto.
    + pose proof (count_occ_upd_occ_vac _ _ (next s) _ Hg). lia.
Qed.

Lemma try_remove_none (s : slab) k : slab_get s k = None -> slab_try_remove s k = (None, s).
Proof.
  unfold slab_get, slab_try_remove. destruct (nth_error (entries s) k) as [[?|?]|]; try discriminate; auto.
Qed.

Lemma remove_spec (s : slab) k v : wf s -> slab_get s k = Some v ->
  exists s', slab_remove s k = Ok (v, s') /\ slab_get s' k = None /\
             (forall j, j <> k -> slab_get s' j = slab_get s j) /\ next s' = k /\ wf s'.
Proof.
  intros Hwf Hg. destruct (try_remove_spec s k v Hwf Hg) as (s' & E & H).
  exists s'. unfold slab_remove. rewrite E. auto.
Qed.

(* LIFO reuse: the key released last is the key handed out next *)
Lemma remove_then_insert_reuses (s : slab) k v v' : wf s -> slab_get s k = Some v ->
  exists s' s'', slab_remove s k = Ok (v, s') /\ slab_insert s' v' = Ok (k, s'').
Proof.
  intros Hwf Hg. destruct (remove_spec s k v Hwf Hg) as (s' & E & _ & _ & Hn & Hwf').
  destruct (insert_spec s' v' Hwf') as (s'' & E' & _).
  exists s', s''. rewrite Hn in E'. auto.
Qed.

(* insert never panics (the unreachable!() in insert_at is unreachable) and never hands out a key in use *)
Lemma insert_fresh (s : slab) v : wf s ->
  exists k s', slab_insert s v = Ok (k, s') /\ slab_get s k = None.
Proof. intros H. destruct (insert_spec s v H) as (s' & E & Hn & _). eauto. Qed.

Lemma wf_next_le (s : slab) : wf s -> next s <= length (entries s).
Proof.
  intros (fl & Hc & _). destruct (chain_head _ _ _ Hc) as [E|(nx & fl' & _ & Hk & _)]; [lia|].
  apply nth_error_lt in Hk. lia.
Qed.

Lemma insert_length (s : slab) v k s' : slab_insert s v = Ok (k, s') ->
  length (entries s') <= S (length (entries s)) /\ length (entries s) <= length (entries s').
Proof.
  unfold slab_insert. destruct (Nat.eqb (next s) (length (entries s))).
  - intros H; inversion H; subst; simpl. rewrite app_length; simpl; lia.
  - destruct (nth_error (entries s) (next s)) as [[?|nx]|]; try discriminate.
    intros H; inversion H; subst; simpl. rewrite upd_length. lia.
Qed.

(* len is the number of occupied entries *)
Lemma wf_len (s : slab) : wf s -> len s = count_occ_entries (entries s).
Proof. intros (fl & _ & _ & _ & H). exact H. Qed.

Lemma occupied_from_in (l : list entry) b k v :
  In (k, v) (occupied_from l b) <-> b <= k /\ nth_error l (k - b) = Some (Occupied v).
Proof.
  revert b; induction l as [|h t IH]; intros b; simpl.
  - split; [tauto|]. intros [_ H]. destruct (k - b); discriminate.
  - destruct h as [w|n]; simpl; rewrite ?IH; split.
    + intros [E|[Hle Hn]].
      * inversion E; subst. rewrite Nat.sub_diag. auto.
      * split; [lia|]. replace (k - b) with (S (k - S b)) by lia. exact Hn.
    + intros [Hle Hn]. destruct (Nat.eq_dec k b) as [->|Hne].
      * rewrite Nat.sub_diag in Hn. inversion Hn; auto.
      * right. split; [lia|]. replace (k - b) with (S (k - S b)) in Hn by lia. exact Hn.
    + intros [Hle Hn]. split; [lia|]. replace (k - b) with (S (k - S b)) by lia. exact Hn.
    + intros [Hle Hn]. destruct (Nat.eq_dec k b) as [->|Hne].
      * rewrite Nat.sub_diag in Hn. discriminate.
      * split; [lia|]. replace (k - b) with (S (k - S b)) in Hn by lia. exact Hn.
Qed.

Lemma slab_iter_in (s : slab) k v : In (k, v) (slab_iter s) <-> slab_get s k = Some v.
Proof.
  unfold slab_iter. rewrite occupied_from_in, get_occ, Nat.sub_0_r. split; [tauto|split; [lia|auto]].
Qed.

Lemma occupied_from_length (l : list entry) b : length (occupied_from l b) = count_occ_entries l.
Proof. revert b; induction l as [|[v|n] t IH]; intros b; simpl; auto. Qed.

Lemma slab_iter_length (s : slab) : wf s -> length (slab_iter s) = len s.
Proof. intros H. rewrite (wf_len s H). apply occupied_from_length. Qed.

End SlabProofs.
