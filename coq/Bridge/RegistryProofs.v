(* The registry's ghost log: every Issue uses an id that is free at that moment, every Forget names
   the request registered under the id; hence ids of registered requests are pairwise distinct at
   every reachable state and an id is reissued only after its previous holder was forgotten. *)
From Coq Require Import List Arith Bool ZArith NArith Lia.
From Crux Require Import Base.Res Bridge.Slab Bridge.SlabProofs Bridge.Bridge Bridge.BridgeProofs.
Import ListNotations.

(* ------------------------------------------------------------------ pure facts about logs *)
Lemma live_snoc log ev : live (log ++ [ev]) = live_step (live log) ev.
Proof. unfold live. rewrite fold_left_app. reflexivity. Qed.

Lemma pair_eqb_eq a b : pair_eqb a b = true <-> a = b.
Proof.
  destruct a as [a1 a2], b as [b1 b2]. unfold pair_eqb; simpl.
  rewrite andb_true_iff, !Nat.eqb_eq. split; [intros [-> ->]; auto|intros H; inversion H; auto].
Qed.

Lemma in_live_forget acc s i p : In p (live_step acc (Forget s i)) <-> In p acc /\ p <> (s, i).
Proof.
  simpl. rewrite filter_In. rewrite negb_true_iff.
  split; intros [H1 H2]; split; auto.
  - intros ->. assert (pair_eqb (s, i) (s, i) = true) by (apply pair_eqb_eq; auto). congruence.
  - destruct (pair_eqb p (s, i)) eqn:E; auto. apply pair_eqb_eq in E. contradiction.
Qed.

Inductive log_wf : list gev -> Prop :=
| log_nil : log_wf []
| log_issue log s i : log_wf log -> ~ In i (map snd (live log)) -> log_wf (log ++ [Issue s i])
| log_forget log s i : log_wf log -> In (s, i) (live log) -> log_wf (log ++ [Forget s i]).

Lemma log_wf_snoc_inv log ev : log_wf (log ++ [ev]) ->
  log_wf log /\ match ev with
                | Issue s i => ~ In i (map snd (live log))
                | Forget s i => In (s, i) (live log)
                end.
Proof.
  inversion 1 as [E | l s i Hl Hn E | l s i Hl Hn E].
  - destruct log; discriminate.
  - apply app_inj_tail in E as [-> <-]. auto.
  - apply app_inj_tail in E as [-> <-]. auto.
Qed.

Lemma log_wf_prefix l l' : log_wf (l ++ l') -> log_wf l.
Proof.
  induction l' as [|ev l' IH] using rev_ind; intros H.
  - rewrite app_nil_r in H. exact H.
  - rewrite app_assoc in H. apply log_wf_snoc_inv in H. tauto.
Qed.

Lemma NoDup_map_filter {X Y} (f : X -> Y) p (l : list X) : NoDup (map f l) -> NoDup (map f (filter p l)).
Proof.
  induction l as [|x t IH]; simpl; intros H; [constructor|].
  inversion H as [|? ? Hn Hd]; subst. destruct (p x); simpl; auto.
  constructor; auto. intros Hin. apply Hn.
  apply in_map_iff in Hin as (y & Hy & Hin). apply filter_In in Hin as [Hin _].
  apply in_map_iff. eauto.
Qed.

Lemma NoDup_app_snoc {X} (l : list X) x : NoDup l -> ~ In x l -> NoDup (l ++ [x]).
Proof.
  induction l as [|h t IH]; simpl; intros Hd Hn.
  - constructor; auto.
  - inversion Hd; subst. constructor.
    + rewrite in_app_iff. simpl. intros [H|[H|[]]]; auto.
    + apply IH; auto.
Qed.

(* ids of the requests registered at any moment are pairwise distinct *)
Lemma log_wf_ids_distinct log : log_wf log -> NoDup (map snd (live log)).
Proof.
  induction 1 as [|log s i Hl IH Hn|log s i Hl IH Hin].
  - constructor.
  - rewrite live_snoc. simpl. rewrite map_app. simpl.
    apply NoDup_app_snoc; auto.
  - rewrite live_snoc. simpl. apply NoDup_map_filter. exact IH.
Qed.

(* after Issue s i, either request s is still the one registered under i, or it has been forgotten *)
Lemma issued_live_or_forgotten l1 s i : forall l2,
  log_wf (l1 ++ Issue s i :: l2) ->
  In (s, i) (live (l1 ++ Issue s i :: l2)) \/ In (Forget s i) l2.
Proof.
  induction l2 as [|ev l2 IH] using rev_ind; intros H.
  - left. replace (l1 ++ [Issue s i]) with (l1 ++ [Issue s i]) by reflexivity.
    rewrite live_snoc. simpl. apply in_or_app. right. left. reflexivity.
  - replace (l1 ++ Issue s i :: l2 ++ [ev]) with ((l1 ++ Issue s i :: l2) ++ [ev]) in *
      by (rewrite <- app_assoc; reflexivity).
    apply log_wf_snoc_inv in H as [Hl Hev].
    destruct (IH Hl) as [Hin|Hf]; [|right; apply in_or_app; auto].
    rewrite live_snoc. destruct ev as [s' i'|s' i'].
    + left. simpl. apply in_or_app. auto.
    + destruct (pair_eqb (s, i) (s', i')) eqn:E.
      * apply pair_eqb_eq in E. inversion E; subst. right. apply in_or_app. right. left. reflexivity.
      * left. apply in_live_forget. split; auto. intros Heq. apply pair_eqb_eq in Heq. congruence.
Qed.

(* an id is reissued only after the request that held it was forgotten *)
Lemma log_wf_reuse_safe log l1 s1 i l2 s2 l3 :
  log_wf log -> log = l1 ++ Issue s1 i :: l2 ++ Issue s2 i :: l3 -> In (Forget s1 i) l2.
Proof.
  intros H ->.
  replace (l1 ++ Issue s1 i :: l2 ++ Issue s2 i :: l3)
    with (((l1 ++ Issue s1 i :: l2) ++ [Issue s2 i]) ++ l3) in H
    by (rewrite <- !app_assoc; simpl; reflexivity).
  apply log_wf_prefix in H. apply log_wf_snoc_inv in H as [Hl Hn].
  destruct (issued_live_or_forgotten _ _ _ _ Hl) as [Hin|Hf]; auto.
  exfalso. apply Hn. apply in_map_iff. exists (s1, i). auto.
Qed.

(* ------------------------------------------------------------------ the bridge keeps its log well formed *)
Section RegistryProofs.
Variables (cstate event op value view handle B : Type).
Notation eff := (eff op handle).
Notation rentry := (rentry op handle).
Notation bstate := (bstate cstate op handle).
Notation bytes := (list B).

Variable core_event : cstate -> event -> cstate * list eff.
Variable core_process : cstate -> cstate * list eff.
Variable core_call : cstate -> handle -> value -> cstate * bool.
Variable core_drop : cstate -> handle -> cstate.
Variable core_view : cstate -> view.
Variable dec_event : bytes -> option (event * bytes).
Variable dec_out : op -> bytes -> option (value * bytes).
Variable enc_reqs : list (nat * op) -> bytes.
Variable enc_view : view -> bytes.

Notation bridge_step := (bridge_step cstate event op value view handle B core_event core_process core_call core_drop core_view dec_event dec_out enc_reqs enc_view).
Notation resume := (resume cstate op value handle B core_call core_drop dec_out).
Notation finish := (finish cstate op handle B enc_reqs).
Notation bridge_run := (bridge_run cstate event op value view handle B core_event core_process core_call core_drop core_view dec_event dec_out enc_reqs enc_view).

(* the log's view of what is registered coincides with the slab *)
Definition LiveRel (reg : slab rentry) (log : list gev) : Prop :=
  forall s i, In (s, i) (live log) <-> exists e, slab_get reg i = Some e /\ r_seq e = s.

Definition BInv (b : bstate) : Prop :=
  wf (b_reg b) /\ LiveRel (b_reg b) (b_log b) /\ log_wf (b_log b).

Fixpoint issues_of (seq : nat) (reqs : list (nat * op)) : list gev :=
  match reqs with
  | [] => []
  | (id, _) :: r => Issue seq id :: issues_of (S seq) r
  end.

Lemma register_all_log : forall (effs : list eff) reg seq log reg' seq' log' reqs,
  wf reg -> LiveRel reg log -> log_wf log ->
  register_all reg seq log effs = Ok (reg', seq', log', reqs) ->
  wf reg' /\ LiveRel reg' log' /\ log_wf log' /\ log' = log ++ issues_of seq reqs.
Proof.
  induction effs as [|e rest IH]; intros reg seq log reg' seq' log' reqs Hwf HL Hlw Hr; simpl in Hr.
  - inversion Hr; subst. simpl. rewrite app_nil_r. auto.
  - destruct (register_spec _ _ reg seq e Hwf) as [Hp | (reg1 & E1 & Hlt & Hn & Hs & Ho & Hwf1)];
      [rewrite Hp in Hr; discriminate|].
    rewrite E1 in Hr.
    destruct (register_all reg1 (S seq) (log ++ [Issue seq (next reg)]) rest)
      as [[[[reg2 seq2] log2] reqs2]| | |] eqn:E2; try discriminate.
    inversion Hr; subst reg' seq' log' reqs. clear Hr.
    assert (Hfresh : ~ In (next reg) (map snd (live log))).
    { intros Hin. apply in_map_iff in Hin as ([s i] & Hi & Hin). simpl in Hi. subst i.
      apply HL in Hin as (e0 & He0 & _). congruence. }
    assert (HL1 : LiveRel reg1 (log ++ [Issue seq (next reg)])).
    { intros s i. rewrite live_snoc. simpl. rewrite in_app_iff. simpl. split.
      - intros [Hin|[Heq|[]]].
        + apply HL in Hin as (e0 & He0 & Hs0). exists e0. split; auto.
          rewrite Ho; auto. intros ->. congruence.
        + inversion Heq; subst. eexists; split; [exact Hs|reflexivity].
      - intros (e0 & He0 & Hs0). destruct (Nat.eq_dec i (next reg)) as [->|Hne].
        + rewrite Hs in He0. inversion He0; subst e0. simpl in Hs0. subst s. auto.
        + left. apply HL. exists e0. rewrite <- Ho; auto. }
    assert (Hlw1 : log_wf (log ++ [Issue seq (next reg)])) by (constructor; auto).
    destruct (IH _ _ _ _ _ _ _ Hwf1 HL1 Hlw1 E2) as (Hwf2 & HL2 & Hlw2 & Hlog).
    repeat split; auto.
    + apply HL2.
    + apply HL2.
    + rewrite Hlog. rewrite <- app_assoc. reflexivity.
Qed.

Lemma finish_inv (b : bstate) c effs b' r :
  BInv b -> finish b c effs = (b', r) -> BInv b'.
Proof.
  intros (Hwf & HL & Hlw) Hf. unfold finish in Hf.
  destruct (register_all (b_reg b) (b_seq b) (b_log b) effs) as [[[[reg seq] log] reqs]| | |] eqn:E;
    inversion Hf; subst; try (split; auto; fail).
  destruct (register_all_log _ _ _ _ _ _ _ _ Hwf HL Hlw E) as (H1 & H2 & H3 & _).
  split; auto.
Qed.

Lemma slab_set_same (reg : slab rentry) id e : slab_get reg id = Some e -> slab_set reg id e = reg.
Proof.
  intros Hg. apply get_occ in Hg. unfold slab_set. rewrite Hg.
  destruct reg as [es l n]. simpl in *. f_equal.
  revert id Hg. induction es as [|h t IH]; intros [|id] Hg; simpl in *; try discriminate.
  - inversion Hg. reflexivity.
  - f_equal. apply IH. exact Hg.
Qed.

Lemma forget_inv (b : bstate) c id e e' r b' r' :
  BInv b -> slab_get (b_reg b) id = Some e -> r_seq e' = r_seq e ->
  forget cstate op handle (mkB (b_core b) (slab_set (b_reg b) id e') (b_seq b) (b_log b)) c id (r_seq e) r = (b', r') ->
  BInv b' /\ b_core b' = c /\ r' = r /\ b_seq b' = b_seq b /\
  (forall j, j <> id -> slab_get (b_reg b') j = slab_get (b_reg b) j) /\ slab_get (b_reg b') id = None /\
  b_log b' = b_log b ++ [Forget (r_seq e) id].
Proof.
  intros (Hwf & HL & Hlw) Hg Hseq Hf.
  destruct (set_spec (b_reg b) id e e' Hwf Hg) as (Hs & Ho & _ & Hwf1).
  destruct (remove_spec _ id e' Hwf1 Hs) as (reg' & E & Hn & Ho' & Hnx & Hwf').
  unfold forget in Hf. simpl in Hf. rewrite E in Hf. inversion Hf; subst b' r'. simpl.
  assert (Hin : In (r_seq e, id) (live (b_log b))) by (apply HL; eauto).
  assert (HB' : BInv (mkB c reg' (b_seq b) (b_log b ++ [Forget (r_seq e) id]))).
  { split; [exact Hwf'|]. split; [|constructor; auto].
    intros s i. simpl. split.
    - intros Hin'. rewrite live_snoc in Hin'. apply in_live_forget in Hin' as [Hin' Hne].
      apply HL in Hin' as (e0 & He0 & Hs0). destruct (Nat.eq_dec i id) as [->|Hni].
      + exfalso. apply Hne. congruence.
      + exists e0. rewrite Ho', Ho; auto.
    - intros (e0 & He0 & Hs0). destruct (Nat.eq_dec i id) as [->|Hni]; [congruence|].
      rewrite live_snoc. apply in_live_forget. split.
      + apply HL. exists e0. rewrite <- Ho, <- Ho'; auto.
      + intros Heq. inversion Heq. contradiction. }
  split; [exact HB'|]. repeat split; auto.
  intros j Hj. rewrite Ho', Ho; auto.
Qed.

Lemma forget_inv0 (b : bstate) c id e r b' r' :
  BInv b -> slab_get (b_reg b) id = Some e ->
  forget cstate op handle b c id (r_seq e) r = (b', r') ->
  BInv b' /\ b_core b' = c /\ r' = r /\ b_seq b' = b_seq b /\
  (forall j, j <> id -> slab_get (b_reg b') j = slab_get (b_reg b) j) /\ slab_get (b_reg b') id = None /\
  b_log b' = b_log b ++ [Forget (r_seq e) id].
Proof.
  intros HB Hg Hf. eapply (forget_inv b c id e e); eauto.
  rewrite (slab_set_same _ _ _ Hg). destruct b; exact Hf.
Qed.

(* resume touches only the entry under [id]; it forgets it or leaves the registry alone *)
Lemma resume_inv (b : bstate) id data b' r :
  BInv b -> resume b id data = (b', r) ->
  BInv b' /\ b_seq b' = b_seq b /\ is_panic r = false /\
  (forall j, j <> id -> slab_get (b_reg b') j = slab_get (b_reg b) j) /\
  length (entries (b_reg b')) = length (entries (b_reg b)).
Proof.
  intros HB Hr. unfold resume in Hr.
  destruct (slab_get (b_reg b) id) as [e|] eqn:Hg.
  2:{ inversion Hr; subst. split; [exact HB|]. repeat split; auto. }
  assert (Hlen : forall c e' r0 b0 r1,
             r_seq e' = r_seq e ->
             forget cstate op handle (mkB (b_core b) (slab_set (b_reg b) id e') (b_seq b) (b_log b)) c id (r_seq e) r0 = (b0, r1) ->
             length (entries (b_reg b0)) = length (entries (b_reg b))).
  { intros c e' r0 b0 r1 Hs Hf. destruct HB as (Hwf & _).
    destruct (set_spec (b_reg b) id e e' Hwf Hg) as (Hs1 & _ & _ & Hwf1).
    unfold forget, slab_remove, slab_try_remove in Hf. simpl in Hf.
    apply get_occ in Hs1. rewrite Hs1 in Hf. inversion Hf; subst. simpl.
    rewrite upd_length. unfold slab_set. apply get_occ in Hg. rewrite Hg. simpl. apply upd_length. }
  destruct (r_kind e) eqn:Hk.
  - destruct (forget_inv0 b _ id e _ _ _ HB Hg Hr) as (H1 & _ & -> & H3 & H4 & _).
    split; [exact H1|]. split; [exact H3|]. split; [reflexivity|]. split; [exact H4|]. eapply (Hlen _ e); eauto.
    rewrite (slab_set_same _ _ _ Hg). destruct b; exact Hr.
  - unfold set_never in Hr.
    destruct (dec_out (r_op e) data) as [[v rest]|].
    + destruct (forget_inv b _ id e (mkR KNever (r_h e) (r_op e) (r_seq e)) _ _ _ HB Hg eq_refl Hr) as (H1 & _ & -> & H3 & H4 & _).
      split; [exact H1|]. split; [exact H3|]. split; [reflexivity|]. split; [exact H4|]. eapply (Hlen _ (mkR KNever (r_h e) (r_op e) (r_seq e))); eauto.
    + destruct (forget_inv b _ id e (mkR KNever (r_h e) (r_op e) (r_seq e)) _ _ _ HB Hg eq_refl Hr) as (H1 & _ & -> & H3 & H4 & _).
      split; [exact H1|]. split; [exact H3|]. split; [reflexivity|]. split; [exact H4|]. eapply (Hlen _ (mkR KNever (r_h e) (r_op e) (r_seq e))); eauto.
  - destruct (dec_out (r_op e) data) as [[v rest]|].
    + destruct (core_call (b_core b) (r_h e) v) as [c ok]. inversion Hr; subst. simpl.
      split; [exact HB|]. split; [reflexivity|]. split; [destruct ok; reflexivity|]. split; auto.
    + inversion Hr; subst. split; [exact HB|]. repeat split; auto.
Qed.

Theorem step_inv (b : bstate) i b' r : BInv b -> bridge_step b i = (b', r) -> BInv b'.
Proof.
  intros HB Hs. destruct i as [data|id data|]; simpl in Hs.
  - destruct (dec_event data) as [[ev rest]|]; [|inversion Hs; subst; auto].
    destruct (core_event (b_core b) ev) as [c effs]. eapply finish_inv; eauto.
  - destruct (resume b id data) as [b1 r1] eqn:Er.
    destruct (resume_inv _ _ _ _ _ HB Er) as (HB1 & _).
    destruct r1; try (inversion Hs; subst; auto; fail).
    destruct (core_process (b_core b1)) as [c effs]. eapply finish_inv; eauto.
  - inversion Hs; subst; auto.
Qed.

Theorem run_inv : forall is b, BInv b -> BInv (snd (bridge_run b is)).
Proof.
  induction is as [|i rest IH]; intros b HB; simpl; auto.
  destruct (bridge_step b i) as [b' r] eqn:E.
  specialize (IH b' (step_inv _ _ _ _ HB E)).
  destruct (bridge_run b' rest) as [rs bf]. exact IH.
Qed.

(* ---------- panics: only the u32 overflow of an id ---------- *)
Lemma register_all_panic : forall (effs : list eff) reg seq log,
  wf reg -> register_all reg seq log effs = Panic ->
  (U32_LIMIT < N.of_nat (length (entries reg)) + N.of_nat (length effs))%N.
Proof.
  induction effs as [|e rest IH]; intros reg seq log Hwf Hr; simpl in Hr; [discriminate|].
  unfold register in Hr.
  destruct (insert_spec reg (mkR (e_kind e) (e_h e) (e_op e) seq) Hwf) as (reg1 & E1 & _ & _ & _ & Hwf1).
  rewrite E1 in Hr. pose proof (wf_next_le _ Hwf) as Hle.
  destruct (N.ltb_spec (N.of_nat (next reg)) U32_LIMIT) as [Hlt|Hge].
  - destruct (register_all reg1 (S seq) (log ++ [Issue seq (next reg)]) rest) as [[[[? ?] ?] ?]| | |] eqn:E2; try discriminate.
    apply IH in E2; auto. apply insert_length in E1. simpl length. lia.
  - simpl length. lia.
Qed.

Theorem step_panic_overflow (b : bstate) i b' r :
  BInv b -> bridge_step b i = (b', r) -> is_panic r = true ->
  exists effs : list eff, (U32_LIMIT < N.of_nat (length (entries (b_reg b))) + N.of_nat (length effs))%N.
Proof.
  intros HB Hs Hp.
  assert (Hfin : forall b1 c effs, wf (b_reg b1) -> finish b1 c effs = (b', r) ->
            (U32_LIMIT < N.of_nat (length (entries (b_reg b1))) + N.of_nat (length effs))%N).
  { intros b1 c effs Hwf Hf. unfold finish in Hf.
    destruct (register_all_no_err _ _ effs (b_reg b1) (b_seq b1) (b_log b1) Hwf) as [[[[[r0 s0] l0] q0] E]|E];
      rewrite E in Hf; inversion Hf; subst; [discriminate|].
    eapply register_all_panic; eauto. }
  destruct i as [data|id data|]; simpl in Hs.
  - destruct (dec_event data) as [[ev rest]|]; [|inversion Hs; subst; discriminate].
    destruct (core_event (b_core b) ev) as [c effs]. exists effs. eapply Hfin; eauto. apply HB.
  - destruct (resume b id data) as [b1 r1] eqn:Er.
    destruct (resume_inv _ _ _ _ _ HB Er) as (HB1 & _ & Hnp & _ & Hlen).
    destruct r1; try (inversion Hs; subst; discriminate).
    destruct (core_process (b_core b1)) as [c effs]. exists effs. rewrite <- Hlen. eapply Hfin; eauto. apply HB1.
  - inversion Hs; subst; discriminate.
Qed.

End RegistryProofs.

Lemma BInv_init (cstate op handle : Type) (c : cstate) : BInv cstate op handle (bridge_init cstate op handle c).
Proof.
  split; [apply wf_empty|]. split; [|constructor].
  intros s i. simpl. split; [tauto|]. intros (e & He & _). destruct i; discriminate.
Qed.
