(* C02: the request layer between the shell and the tasks.

   core/resolve.rs      Resolve::{Never,Once,Many}::resolve (Once is swapped for Never before its closure runs)
   core/request.rs      Request::{resolves_never,resolves_once,resolves_many_times,resolve}
   core/mod.rs          Core::resolve = request.resolve(v)?; process()   (debug_assert removed by fix f4ce20d)
   command/context.rs   request_from_shell / stream_from_shell: one futures mpsc::unbounded channel per
                        request; the sender is moved into the request's resolve closure, the receiver into
                        the ShellRequest / ShellStream future owned by the issuing task
   capability/shell_request.rs, shell_stream.rs (legacy): the closure holds a Weak to the future's shared
                        state; upgrade fails once the future is dropped; otherwise the value goes into the
                        result slot / the crux channel and the waker is woken
   bridge/request_serde.rs  ResolveSerialized::resolve, Resolve::deserializing

   All four closure shapes act on "their" channel in the same way: deliver v if the consuming future is
   still alive, else do nothing (one-shot: silently; stream: report Err(())).  The heap below keeps the
   channels apart from the requests, so that privacy of a request's channel is an invariant to prove
   (ResolveProofs.v) and not a by-product of the representation.  Executable definitions only.        *)
From Coq Require Import List Arith Bool ZArith NArith.
From Crux Require Import Base.Res Bridge.Slab Bridge.Bridge.
Import ListNotations.

(* ------------------------------------------------------------------ channels *)
Record chan : Type := mkChan {
  ch_buf : list N;        (* sent, not yet received *)
  ch_rx : bool;           (* the receiving future (ShellRequest/ShellStream) is alive *)
  ch_tx : bool;           (* the sender (inside the resolve closure) is alive *)
  ch_stream : bool;       (* the receiver is a ShellStream (a Many request); otherwise a ShellRequest *)
  ch_limit : option nat;  (* how many values the consumer takes before it ends; None = never ends by itself *)
  ch_taken : nat;         (* values received so far *)
  ch_owner : nat;         (* ghost: the task holding the receiver *)
  ch_acc : list N;        (* ghost: every value sent while the receiver was alive, in order *)
  ch_del : list N;        (* ghost: every value received, in order *)
  ch_legacy : bool }.     (* legacy capability future: nothing wakes its task when the sender is dropped *)

(* the resolve callback of a request (Resolve<Out>) *)
Inductive resolve : Type :=
| RNever
| ROnce (cid : nat)      (* Box<dyn FnOnce(Out)>: move |v| { let _ = sender.unbounded_send(v); } *)
| RMany (cid : nat).     (* Box<dyn Fn(Out) -> Result<(),()>>: sender.unbounded_send(v).map_err(|_| ()) *)

Definition closure_of (r : resolve) : option nat :=
  match r with RNever => None | ROnce c => Some c | RMany c => Some c end.

Record rcell : Type := mkCell { q_res : resolve; q_owner : nat; q_kind : rkind }.

Record heap : Type := mkHeap { h_reqs : list rcell; h_chans : list chan; h_aborted : bool }.
Definition heap_empty : heap := mkHeap [] [] false.

(* unbounded_send / legacy "upgrade the Weak then store": succeeds iff the receiving side is alive *)
Definition chan_send (chs : list chan) (cid : nat) (v : N) : list chan * bool :=
  match nth_error chs cid with
  | Some c =>
      if ch_rx c then
        (upd chs cid (mkChan (ch_buf c ++ [v]) true (ch_tx c) (ch_stream c) (ch_limit c) (ch_taken c) (ch_owner c)
                             (ch_acc c ++ [v]) (ch_del c) (ch_legacy c)), true)
      else (chs, false)
  | None => (chs, false)
  end.

(* dropping a sender (closure consumed or dropped) *)
Definition chan_close_tx (chs : list chan) (cid : nat) : list chan :=
  match nth_error chs cid with
  | Some c => upd chs cid (mkChan (ch_buf c) (ch_rx c) false (ch_stream c) (ch_limit c) (ch_taken c) (ch_owner c) (ch_acc c) (ch_del c) (ch_legacy c))
  | None => chs
  end.

(* Resolve::resolve(&mut self, v) *)
Definition resolve_step (r : resolve) (chs : list chan) (v : N) : resolve * list chan * res unit :=
  match r with
  | RNever => (RNever, chs, Err E_Never)
  | ROnce cid =>
      (* mem::replace(self, Never); f(v); the FnOnce (and its sender) is gone afterwards *)
      let (chs1, _) := chan_send chs cid v in
      (RNever, chan_close_tx chs1 cid, Ok tt)
  | RMany cid =>
      let (chs1, ok) := chan_send chs cid v in
      (RMany cid, chs1, if ok then Ok tt else Err E_FinishedMany)
  end.

(* ------------------------------------------------------------------ the serialized callback *)
Inductive sresolve : Type := SNever | SOnce (cid : nat) | SMany (cid : nat).

(* Resolve::deserializing(self, func) *)
Definition deserializing (r : resolve) : sresolve :=
  match r with RNever => SNever | ROnce c => SOnce c | RMany c => SMany c end.

(* ResolveSerialized::resolve(&mut self, bytes) with the closures built by [deserializing];
   [body] = what the deserializer yields for the request's output type *)
Definition sresolve_step (s : sresolve) (chs : list chan) (body : option N) : sresolve * list chan * res unit :=
  match s with
  | SNever => (SNever, chs, Err E_Never)
  | SOnce cid =>
      match body with
      | None => (SNever, chan_close_tx chs cid, Err E_DeserializeOutput)     (* func(deser)? fails; closure dropped *)
      | Some v => let (chs1, _) := chan_send chs cid v in (SNever, chan_close_tx chs1 cid, Ok tt)
      end
  | SMany cid =>
      match body with
      | None => (SMany cid, chs, Err E_DeserializeOutput)
      | Some v => let (chs1, ok) := chan_send chs cid v in
                  (SMany cid, chs1, if ok then Ok tt else Err E_FinishedMany)
      end
  end.

(* ------------------------------------------------------------------ actions on the heap *)
Inductive action : Type :=
| AIssue (owner : nat) (k : rkind) (limit : option nat) (legacy : bool)  (* a task creates a request (and its private channel) *)
| AResolve (rid : nat) (v : N)                             (* Request::resolve / Core::resolve's first half *)
| ASerResolve (rid : nat) (body : option N)                (* the same request resolved through ResolveSerialized *)
| ADropReq (rid : nat)                                     (* the shell drops the request unresolved *)
| APoll                                                    (* the tasks run until nothing more can happen *)
| AAbort                                                   (* AbortHandle::abort(): takes effect at the next poll *)
| ADropAll.                                                (* the command / its tasks are dropped *)

(* continuation events: (owner, value) for a received value; (owner, ENDED) when a stream consumer ends *)
Definition ENDED : N := 18446744073709551615%N.

Definition new_chan (owner : nat) (stream : bool) (limit : option nat) (legacy : bool) : chan :=
  mkChan [] true true stream limit 0 owner [] [] legacy.

Definition set_req (h : heap) (rid : nat) (r : resolve) : list rcell :=
  match nth_error (h_reqs h) rid with
  | Some c => upd (h_reqs h) rid (mkCell r (q_owner c) (q_kind c))
  | None => h_reqs h
  end.

(* one consumer runs: take what is there, up to the limit; end when the limit is reached, or when the buffer is
   empty and the sender is gone *)
Fixpoint take_n (n : nat) (l : list N) : list N * list N :=
  match n, l with
  | S n', x :: r => let (a, b) := take_n n' r in (x :: a, b)
  | _, _ => ([], l)
  end.

Definition consume (c : chan) : chan * list (nat * N) :=
  if negb (ch_rx c) then (c, []) else
  let is_stream := ch_stream c in
  let room := match ch_limit c with Some l => l - ch_taken c | None => length (ch_buf c) end in
  let (got, rest) := take_n room (ch_buf c) in
  let taken := ch_taken c + length got in
  let evs := map (fun v => (ch_owner c, v)) got in
  let full := match ch_limit c with Some l => Nat.leb l taken | None => false end in
  if full then
    (mkChan [] false (ch_tx c) (ch_stream c) (ch_limit c) taken (ch_owner c) (ch_acc c) (ch_del c ++ got) (ch_legacy c),
     evs ++ (if is_stream then [(ch_owner c, ENDED)] else []))
  else if negb (ch_tx c) && negb (ch_legacy c) && match rest with [] => true | _ => false end then
    (* the sender is gone and nothing is buffered: a stream ends (Ready(None)); a one-shot future stays pending with
       no waker left and its task is evicted (command/executor.rs).  Legacy futures are never woken: they stay. *)
    (mkChan [] false false (ch_stream c) (ch_limit c) taken (ch_owner c) (ch_acc c) (ch_del c ++ got) (ch_legacy c),
     evs ++ (if is_stream then [(ch_owner c, ENDED)] else []))
  else
    (mkChan rest true (ch_tx c) (ch_stream c) (ch_limit c) taken (ch_owner c) (ch_acc c) (ch_del c ++ got) (ch_legacy c), evs).

Definition kill (c : chan) : chan :=
  mkChan [] false (ch_tx c) (ch_stream c) (ch_limit c) (ch_taken c) (ch_owner c) (ch_acc c) (ch_del c) (ch_legacy c).

Fixpoint poll_chans (chs : list chan) : list chan * list (nat * N) :=
  match chs with
  | [] => ([], [])
  | c :: rest =>
      let (c', ev) := consume c in
      let (rest', evs) := poll_chans rest in
      (c' :: rest', ev ++ evs)
  end.

Record outcome : Type := mkOut { o_res : res unit; o_events : list (nat * N); o_new : option nat }.

Definition step (h : heap) (a : action) : heap * outcome :=
  match a with
  | AIssue owner k limit legacy =>
      let rid := length (h_reqs h) in
      match k with
      | KNever => (mkHeap (h_reqs h ++ [mkCell RNever owner KNever]) (h_chans h) (h_aborted h), mkOut (Ok tt) [] (Some rid))
      | KOnce => let cid := length (h_chans h) in
                 (mkHeap (h_reqs h ++ [mkCell (ROnce cid) owner KOnce]) (h_chans h ++ [new_chan owner false (Some 1) legacy]) (h_aborted h),
                  mkOut (Ok tt) [] (Some rid))
      | KMany => let cid := length (h_chans h) in
                 (mkHeap (h_reqs h ++ [mkCell (RMany cid) owner KMany]) (h_chans h ++ [new_chan owner true limit legacy]) (h_aborted h),
                  mkOut (Ok tt) [] (Some rid))
      end
  | AResolve rid v =>
      match nth_error (h_reqs h) rid with
      | Some q => let '(r', chs', res) := resolve_step (q_res q) (h_chans h) v in
                  (mkHeap (set_req h rid r') chs' (h_aborted h), mkOut res [] None)
      | None => (h, mkOut (Err E_NotHeld) [] None)
      end
  | ASerResolve rid body =>
      match nth_error (h_reqs h) rid with
      | Some q => let '(s', chs', res) := sresolve_step (deserializing (q_res q)) (h_chans h) body in
                  (mkHeap (set_req h rid (match s' with SNever => RNever | SOnce c => ROnce c | SMany c => RMany c end))
                          chs' (h_aborted h), mkOut res [] None)
      | None => (h, mkOut (Err E_Never) [] None)       (* no entry in the registry (fix 117dd88) *)
      end
  | ADropReq rid =>
      match nth_error (h_reqs h) rid with
      | Some q => (mkHeap (set_req h rid RNever)
                          (match closure_of (q_res q) with Some c => chan_close_tx (h_chans h) c | None => h_chans h end)
                          (h_aborted h), mkOut (Ok tt) [] None)
      | None => (h, mkOut (Ok tt) [] None)
      end
  | APoll =>
      if h_aborted h then (mkHeap (h_reqs h) (map kill (h_chans h)) true, mkOut (Ok tt) [] None)
      else let (chs', evs) := poll_chans (h_chans h) in
           (mkHeap (h_reqs h) chs' false, mkOut (Ok tt) evs None)
  | AAbort => (mkHeap (h_reqs h) (h_chans h) true, mkOut (Ok tt) [] None)
  | ADropAll => (mkHeap (h_reqs h) (map kill (h_chans h)) (h_aborted h), mkOut (Ok tt) [] None)
  end.

Fixpoint run (h : heap) (acts : list action) : heap * list outcome :=
  match acts with
  | [] => (h, [])
  | a :: rest => let (h1, o) := step h a in let (h2, os) := run h1 rest in (h2, o :: os)
  end.
