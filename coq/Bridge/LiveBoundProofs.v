(* Quantitative form of the task bound: once the tasks have run, the number of live consumers is at most the
   number of requests that can still be resolved, plus the legacy consumers that can never finish (known class). *)
From Coq Require Import List Arith Bool ZArith NArith Lia.
From Crux Require Import Base.Res Bridge.Slab Bridge.SlabProofs Bridge.Bridge Bridge.Resolve Bridge.ResolveProofs
                         Bridge.HeapReleaseProofs Bridge.Arity Bridge.Twin Bridge.Timer Bridge.Release.
Import ListNotations.
Close Scope N_scope.
Open Scope nat_scope.

Definition at_index {A} (p : A -> bool) (l : list A) (k : nat) : bool :=
  match nth_error l k with Some x => p x | None => false end.

Lemma filter_length_index {A} (p : A -> bool) (l : list A) :
  length (filter p l) = length (filter (at_index p l) (seq 0 (length l))).
Proof.
  induction l as [|x t IH]; simpl; auto.
  rewrite <- seq_shift. unfold at_index at 1. simpl.
  assert (E : length (filter (at_index p (x :: t)) (map S (seq 0 (length t)))) = length (filter (at_index p t) (seq 0 (length t)))).
  { generalize (seq 0 (length t)). induction l as [|k r IHr]; simpl; auto.
    unfold at_index at 1. simpl. fold (at_index p t k). destruct (at_index p t k); simpl; auto. }
  destruct (p x); simpl; rewrite E, IH; reflexivity.
Qed.

Lemma filter_split {A} (p q : A -> bool) (l : list A) : (forall x, q x = true -> p x = true) ->
  length (filter p l) = length (filter (fun x => p x && negb (q x)) l) + length (filter q l).
Proof.
  intros Himp. induction l as [|x t IH]; simpl; auto.
  destruct (q x) eqn:Eq.
  - rewrite (Himp x Eq). simpl. lia.
  - destruct (p x); simpl; lia.
Qed.

Definition has_closure (q : rcell) : bool := match closure_of (q_res q) with Some _ => true | None => false end.
Definition closure_ids (reqs : list rcell) : list nat :=
  flat_map (fun q => match closure_of (q_res q) with Some c => [c] | None => [] end) reqs.

Lemma closure_ids_length reqs : length (closure_ids reqs) = length (filter has_closure reqs).
Proof.
  induction reqs as [|q t IH]; simpl; auto. unfold has_closure at 1.
  destruct (closure_of (q_res q)); simpl; rewrite ?app_length; simpl; lia.
Qed.

Lemma closure_ids_in reqs rid q c : nth_error reqs rid = Some q -> closure_of (q_res q) = Some c -> In c (closure_ids reqs).
Proof.
  intros Hq Hc. unfold closure_ids. apply in_flat_map. exists q. split; [eapply nth_error_In; eauto|]. rewrite Hc. left. reflexivity.
Qed.

Definition stuck_chan (c : chan) : bool :=
  ch_rx c && ch_legacy c && negb (ch_tx c) && match ch_buf c with [] => true | _ => false end.

Lemma outstanding_eq h : outstanding h = length (filter has_closure (h_reqs h)).
Proof. reflexivity. Qed.

(* a consumer alive after the tasks ran, and not one of the stuck legacy ones, has a live sender *)
Lemma alive_after_consume_tx ch : ch_rx (fst (consume ch)) = true -> stuck_chan (fst (consume ch)) = false ->
  ch_tx (fst (consume ch)) = true.
Proof.
  unfold consume. destruct (ch_rx ch) eqn:Hrx; simpl; [|congruence].
  set (room := match ch_limit ch with Some l => l - ch_taken ch | None => length (ch_buf ch) end).
  destruct (take_n room (ch_buf ch)) as [got rest] eqn:E.
  destruct (match ch_limit ch with Some l => Nat.leb l (ch_taken ch + length got) | None => false end) eqn:Efull;
    simpl; [discriminate|].
  assert (Hrest : rest = []).
  { destruct (ch_limit ch) as [l|] eqn:El.
    - apply Nat.leb_gt in Efull. unfold room in *.
      assert (H : length got < l - ch_taken ch) by lia.
      clear - E H. revert got rest E H. generalize (ch_buf ch) as buf. generalize (l - ch_taken ch) as n.
      induction n as [|n IH]; intros [|x buf] got rest E H; simpl in E; inversion E; subst; auto; simpl in *; try lia.
      destruct (take_n n buf) as [a b] eqn:E'. inversion H1; subst. simpl in H. eapply IH; eauto. lia.
    - unfold room in *. clear - E. revert got rest E. generalize (ch_buf ch) as buf.
      induction buf as [|x buf IH]; intros got rest E; simpl in E; [inversion E; auto|].
      destruct (take_n (length buf) buf) as [a b] eqn:E'. inversion E; subst. eapply IH; eauto. }
  subst rest.
  destruct (negb (ch_tx ch) && negb (ch_legacy ch) && true) eqn:Eend; simpl; [discriminate|].
  intros _ Hstuck. unfold stuck_chan in Hstuck. simpl in Hstuck.
  destruct (ch_tx ch) eqn:Htx; auto. simpl in *. destruct (ch_legacy ch); simpl in *; discriminate.
Qed.

Theorem live_bound_after_poll (h : heap) : Inv h -> TxInv h -> h_aborted h = false ->
  let h' := fst (step h APoll) in
  live_count h' <= outstanding h' + legacy_stuck h'.
Proof.
  intros HI HT Hab h'.
  pose proof (step_TxInv h APoll HI HT) as HT'. fold h' in HT'.
  assert (Hn : forall k, nth_error (h_chans h') k = option_map (fun c => fst (consume c)) (nth_error (h_chans h) k)).
  { intros k. unfold h'. simpl. rewrite Hab. pose proof (poll_chans_nth (h_chans h) k) as H.
    destruct (poll_chans (h_chans h)). exact H. }
  unfold live_count, legacy_stuck. rewrite outstanding_eq, <- closure_ids_length.
  (* split the live consumers into the stuck legacy ones and the others *)
  assert (Hsplit : forall l : list chan,
            length (filter ch_rx l) = length (filter (fun c => ch_rx c && negb (stuck_chan c)) l) + length (filter stuck_chan l)).
  { intros l. apply filter_split. intros c Hc. unfold stuck_chan in Hc.
    destruct (ch_rx c); [reflexivity|discriminate]. }
  rewrite Hsplit.
  assert (Hle : length (filter (fun c => ch_rx c && negb (stuck_chan c)) (h_chans h')) <= length (closure_ids (h_reqs h'))).
  { rewrite filter_length_index. apply NoDup_incl_length.
    - apply NoDup_filter. apply seq_NoDup.
    - intros k Hk. apply filter_In in Hk as [_ Hk]. unfold at_index in Hk.
      destruct (nth_error (h_chans h') k) as [ch'|] eqn:Hc'; [|discriminate].
      apply andb_true_iff in Hk as [Hrx Hns]. apply negb_true_iff in Hns.
      pose proof (Hn k) as Hk'. rewrite Hc' in Hk'.
      destruct (nth_error (h_chans h) k) as [ch|] eqn:Hc; [|discriminate]. simpl in Hk'. inversion Hk'; subst ch'.
      pose proof (alive_after_consume_tx ch Hrx Hns) as Htx.
      destruct (HT' k (fst (consume ch)) Hc' Htx) as (rid & q & Hq & Hcl).
      eapply closure_ids_in; eauto. }
  assert (Hst : filter stuck_chan (h_chans h') =
                filter (fun c => ch_rx c && ch_legacy c && negb (ch_tx c) && match ch_buf c with [] => true | _ => false end) (h_chans h'))
    by reflexivity.
  rewrite Hst in *. lia.
Qed.
