(* Exact model of slab 0.4.9 (~/.cargo/registry/src/*/slab-0.4.9/src/lib.rs) as far as the bridge's
   ResolveRegistry uses it: [insert] (= insert_at self.next), [get]/[get_mut], [try_remove]/[remove].
   entries : Vec<Entry<T>> with Entry::{Occupied(T), Vacant(next)}, len, next (head of the LIFO free
   list; == entries.len() when the slab is full).  Executable definitions only; proofs in SlabProofs.v. *)
From Coq Require Import List Arith Bool.
From Crux Require Import Base.Res.
Import ListNotations.

Section Slab.
Context {V : Type}.

Inductive entry : Type :=
| Occupied (v : V)
| Vacant (nxt : nat).

Record slab : Type := mkSlab { entries : list entry; len : nat; next : nat }.

(* Slab::with_capacity(n): capacity only pre-allocates; entries is empty *)
Definition slab_empty : slab := mkSlab [] 0 0.

Fixpoint upd {A} (l : list A) (k : nat) (x : A) : list A :=
  match l, k with
  | [], _ => []
  | _ :: t, 0 => x :: t
  | h :: t, S k' => h :: upd t k' x
  end.

(* get / get_mut / contains *)
Definition slab_get (s : slab) (k : nat) : option V :=
  match nth_error (entries s) k with
  | Some (Occupied v) => Some v
  | _ => None
  end.

(* insert: let key = self.next; self.insert_at(key, val); key *)
Definition slab_insert (s : slab) (v : V) : res (nat * slab) :=
  let key := next s in
  if Nat.eqb key (length (entries s)) then
    Ok (key, mkSlab (entries s ++ [Occupied v]) (S (len s)) (S key))
  else
    match nth_error (entries s) key with
    | Some (Vacant nx) => Ok (key, mkSlab (upd (entries s) key (Occupied v)) (S (len s)) nx)
    | _ => Panic     (* unreachable!() *)
    end.

(* *slab.get_mut(k).unwrap() = v  (in-place replacement of an occupied value) *)
Definition slab_set (s : slab) (k : nat) (v : V) : slab :=
  match nth_error (entries s) k with
  | Some (Occupied _) => mkSlab (upd (entries s) k (Occupied v)) (len s) (next s)
  | _ => s
  end.

(* try_remove: swap in Vacant(self.next); if it was occupied: len -= 1, next = key *)
Definition slab_try_remove (s : slab) (k : nat) : option V * slab :=
  match nth_error (entries s) k with
  | Some (Occupied v) => (Some v, mkSlab (upd (entries s) k (Vacant (next s))) (len s - 1) k)
  | _ => (None, s)
  end.

(* remove = try_remove(key).expect("invalid key") *)
Definition slab_remove (s : slab) (k : nat) : res (V * slab) :=
  match slab_try_remove s k with
  | (Some v, s') => Ok (v, s')
  | (None, _) => Panic
  end.

Fixpoint count_occ_entries (l : list entry) : nat :=
  match l with
  | [] => 0
  | Occupied _ :: t => S (count_occ_entries t)
  | Vacant _ :: t => count_occ_entries t
  end.

(* keys and values of all occupied entries, in key order (what Slab::iter yields) *)
Fixpoint occupied_from (l : list entry) (k : nat) : list (nat * V) :=
  match l with
  | [] => []
  | Occupied v :: t => (k, v) :: occupied_from t (S k)
  | Vacant _ :: t => occupied_from t (S k)
  end.
Definition slab_iter (s : slab) : list (nat * V) := occupied_from (entries s) 0.

End Slab.
Arguments entry : clear implicits.
Arguments slab : clear implicits.
