(* Laws of the symbolic codec used for case evaluation, and (below) that the model's own observations
   satisfy the trace predicate C09_ok. *)
From Coq Require Import List Arith Bool ZArith NArith Lia.
From Crux Require Import Base.Res Bridge.Slab Bridge.SlabProofs Bridge.Bridge Bridge.BridgeProofs
                         Bridge.RegistryProofs Bridge.ImageProofs Bridge.Twin.
Import ListNotations.

Lemma t_req_items_law : forall l rest, t_dec_req_items (length l) (t_enc_req_items l ++ rest) = Some (l, rest).
Proof.
  induction l as [|[id [va pa]] t IH]; intros rest; simpl; [reflexivity|].
  rewrite IH, Nat2N.id. reflexivity.
Qed.

Lemma t_reqs_law : forall l rest, t_dec_reqs (t_enc_reqs l ++ rest) = Some (l, rest).
Proof. intros l rest. unfold t_dec_reqs, t_enc_reqs. simpl. rewrite Nat2N.id. apply t_req_items_law. Qed.

Lemma t_view_law : forall v rest, t_dec_view (t_enc_view v ++ rest) = Some (v, rest).
Proof.
  intros v rest. unfold t_dec_view, t_enc_view. simpl. rewrite Nat2N.id.
  assert (H : (length v <= length (v ++ rest))%nat) by (rewrite app_length; lia).
  apply Nat.leb_le in H. rewrite H.
  rewrite firstn_app, Nat.sub_diag, firstn_all. simpl. rewrite app_nil_r.
  rewrite skipn_app, Nat.sub_diag, skipn_all. reflexivity.
Qed.

(* ------------------------------------------------------------------ the model satisfies C09_ok *)
Lemma list_eqb_refl {A} (eqb : A -> A -> bool) (l : list A) : (forall x, eqb x x = true) -> list_eqb eqb l l = true.
Proof. intros H. induction l as [|x t IH]; simpl; auto. rewrite H, IH. reflexivity. Qed.

Lemma aop_eqb_refl o : aop_eqb o o = true.
Proof. unfold aop_eqb. rewrite !N.eqb_refl. reflexivity. Qed.

Lemma rkind_eqb_refl k : rkind_eqb k k = true.
Proof. destruct k; reflexivity. Qed.

Lemma list_eqb_map2 {A X Y} (eqb : A -> A -> bool) (f : X -> A) (g : Y -> A) : forall (xs : list X) (ys : list Y),
  length xs = length ys ->
  (forall j x y, nth_error xs j = Some x -> nth_error ys j = Some y -> eqb (f x) (g y) = true) ->
  list_eqb eqb (map f xs) (map g ys) = true.
Proof.
  induction xs as [|x xs IH]; intros [|y ys] Hlen H; simpl in *; try discriminate; auto.
  rewrite (H 0%nat x y eq_refl eq_refl). simpl. apply IH; [lia|].
  intros j x' y' Hx Hy. apply (H (S j)); auto.
Qed.

Lemma map_snd_combine {X Y} (xs : list X) (ys : list Y) : length xs = length ys -> map snd (combine xs ys) = ys.
Proof. revert ys; induction xs as [|x xs IH]; intros [|y ys] H; simpl in *; try discriminate; auto. rewrite IH; auto. Qed.

Lemma map_fst_combine {X Y} (xs : list X) (ys : list Y) : length xs = length ys -> map fst (combine xs ys) = xs.
Proof. revert ys; induction xs as [|x xs IH]; intros [|y ys] H; simpl in *; try discriminate; auto. rewrite IH; auto. Qed.

Lemma mem_nat_in x l : mem_nat x l = true <-> In x l.
Proof.
  unfold mem_nat. rewrite existsb_exists. split.
  - intros (y & Hy & E). apply Nat.eqb_eq in E. subst. exact Hy.
  - intros H. exists x. split; auto. apply Nat.eqb_refl.
Qed.

Lemma nodup_nat_of_NoDup l : NoDup l -> nodup_nat l = true.
Proof.
  induction 1 as [|x l Hn Hd IH]; simpl; auto.
  rewrite IH, andb_true_r. apply negb_true_iff. destruct (mem_nat x l) eqn:E; auto.
  apply mem_nat_in in E. contradiction.
Qed.

(* lookups in the snapshot = lookups in the slab *)
Lemma find_occupied_from {V} (l : list (entry V)) : forall b id,
  find (fun p => Nat.eqb (fst p) id) (occupied_from l b) =
  if Nat.leb b id then match nth_error l (id - b) with Some (Occupied v) => Some (id, v) | _ => None end else None.
Proof.
  induction l as [|e t IH]; intros b id; simpl.
  - destruct (Nat.leb b id); auto. destruct (id - b)%nat; reflexivity.
  - destruct (Nat.leb_spec b id) as [Hle|Hgt].
    + destruct (Nat.eq_dec id b) as [->|Hne].
      * rewrite Nat.sub_diag. simpl. destruct e as [v|nx]; simpl.
        -- rewrite Nat.eqb_refl. reflexivity.
        -- rewrite IH. destruct (Nat.leb_spec (S b) b); [lia|reflexivity].
      * replace (id - b)%nat with (S (id - S b)) by lia. simpl.
        destruct e as [v|nx]; simpl.
        -- destruct (Nat.eqb_spec b id); [lia|]. rewrite IH. destruct (Nat.leb_spec (S b) id); [reflexivity|lia].
        -- rewrite IH. destruct (Nat.leb_spec (S b) id); [reflexivity|lia].
    + destruct e as [v|nx]; simpl.
      * destruct (Nat.eqb_spec b id); [lia|]. rewrite IH. destruct (Nat.leb_spec (S b) id); [lia|reflexivity].
      * rewrite IH. destruct (Nat.leb_spec (S b) id); [lia|reflexivity].
Qed.

Lemma snap_kind_get (b : m_bstate) id e :
  slab_get (b_reg b) id = Some e -> snap_kind (snap_of b) id = Some (r_kind e).
Proof.
  intros Hg. unfold snap_kind, snap_of, slab_iter.
  assert (H : find (fun p : nat * rkind => Nat.eqb (fst p) id)
                (map (fun p : nat * rentry aop nat => (fst p, r_kind (snd p))) (occupied_from (entries (b_reg b)) 0))
              = option_map (fun p : nat * rentry aop nat => (fst p, r_kind (snd p)))
                  (find (fun p => Nat.eqb (fst p) id) (occupied_from (entries (b_reg b)) 0))).
  { generalize (occupied_from (entries (b_reg b)) 0). induction l as [|p t IH]; simpl; auto.
    destruct (Nat.eqb (fst p) id); auto. }
  rewrite H, find_occupied_from. simpl. rewrite Nat.sub_0_r.
  apply get_occ in Hg. rewrite Hg. reflexivity.
Qed.

Lemma snap_of_in (b : m_bstate) id : In id (map fst (snap_of b)) -> exists e, slab_get (b_reg b) id = Some e.
Proof.
  unfold snap_of. rewrite map_map. simpl. intros H. apply in_map_iff in H as ([k v] & Hk & Hin).
  simpl in Hk. subst k. apply slab_iter_in in Hin. eauto.
Qed.

Section ModelOk.
Arguments t_dec_reqs : simpl never.
Arguments t_enc_reqs : simpl never.
Arguments t_dec_view : simpl never.
Arguments t_enc_view : simpl never.
Variable tb : rtables.
Notation rstep_image := (step_image rcs N aop N aview nat N (rc_event tb) (rc_process tb) (rc_call tb) rc_drop (rc_view tb)
                                   t_dec_event t_dec_out t_enc_reqs t_enc_view).
Notation rtwin := (twin_run rcs N aop N aview nat N (rc_event tb) (rc_process tb) (rc_call tb) rc_drop (rc_view tb)
                            t_dec_event t_dec_out t_enc_reqs t_enc_view).
Notation rimage := (image rcs aop aview nat N t_enc_reqs t_enc_view).

Lemma call_ok_of_image (b b' : m_bstate) (i : oin) r err tr :
  rimage b b' (bin_of i) r err tr ->
  C09_call_ok (snap_of b) (model_obs tb i (mkCall _ _ _ _ _ (bin_of i) r err tr b b')) = true.
Proof.
  intros Him. unfold C09_call_ok, model_obs, image_ok, ids_ok, view_ok. simpl.
  rewrite (list_eqb_refl N.eqb _ N.eqb_refl), andb_true_r.
  unfold BridgeProofs.image in Him. destruct err as [e|].
  - subst r. reflexivity.
  - destruct tr as [effs|e|v|]; simpl.
    + destruct Him as (ids & Hlen & -> & Hreg & Hfresh). simpl.
      assert (Hdec : t_dec_reqs (t_enc_reqs (combine ids (map e_op effs))) = Some (combine ids (map e_op effs), [])).
      { rewrite <- (app_nil_r (t_enc_reqs _)). apply t_reqs_law. }
      rewrite Hdec.
      assert (Hl2 : length ids = length (map (e_op (op:=aop) (handle:=nat)) effs)) by (rewrite map_length; exact Hlen).
      rewrite (map_snd_combine _ _ Hl2), (map_fst_combine _ _ Hl2), map_map. simpl.
      rewrite (list_eqb_refl aop_eqb _ aop_eqb_refl). simpl.
      assert (Hnd : NoDup ids).
      { apply NoDup_nth_inj. intros j1 j2 id H1 H2.
        assert (Hj1 : (j1 < length effs)%nat) by (rewrite <- Hlen; eapply nth_error_lt; eauto).
        assert (Hj2 : (j2 < length effs)%nat) by (rewrite <- Hlen; eapply nth_error_lt; eauto).
        destruct (nth_error effs j1) as [e1|] eqn:E1; [|apply nth_error_None in E1; lia].
        destruct (nth_error effs j2) as [e2|] eqn:E2; [|apply nth_error_None in E2; lia].
        pose proof (Hreg _ _ _ H1 E1) as G1. pose proof (Hreg _ _ _ H2 E2) as G2.
        rewrite G1 in G2. inversion G2. lia. }
      rewrite (nodup_nat_of_NoDup _ Hnd). simpl.
      apply andb_true_intro. split.
      * apply forallb_forall. intros id Hin.
        destruct (Hfresh id Hin) as [Hnone|(data & Hd)].
        -- apply orb_true_intro. left. apply negb_true_iff.
           destruct (mem_nat id (map fst (snap_of b))) eqn:E; auto.
           apply mem_nat_in in E. apply snap_of_in in E as (e0 & He0). congruence.
        -- apply orb_true_intro. right. destruct i as [[|] ev|rid [v|]|]; simpl in Hd; try discriminate;
             inversion Hd; subst; apply Nat.eqb_refl.
      * rewrite map_map. apply list_eqb_map2; [exact Hlen|].
        intros j id ef Hid Hef. rewrite (snap_kind_get b' id _ (Hreg _ _ _ Hid Hef)). simpl. apply rkind_eqb_refl.
    + subst r. simpl. rewrite Z.eqb_refl. reflexivity.
    + subst r. simpl.
      assert (Hdec : t_dec_view (t_enc_view v) = Some (v, [])).
      { rewrite <- (app_nil_r (t_enc_view v)). apply t_view_law. }
      rewrite Hdec. rewrite (list_eqb_refl N.eqb _ N.eqb_refl). reflexivity.
    + contradiction.
Qed.

Lemma model_ok_from : forall (ins : list oin) (b : m_bstate) (t : m_tstate),
  R rcs aop nat b t ->
  (forall c, In c (rtwin b t (map bin_of ins)) -> is_panic (c_out _ _ _ _ _ c) = false) ->
  C09_ok_from (snap_of b) (map (fun p => model_obs tb (fst p) (snd p)) (combine ins (rtwin b t (map bin_of ins)))) = true.
Proof.
  induction ins as [|i rest IH]; intros b t HR Hnp; simpl; [reflexivity|].
  simpl in Hnp.
  destruct (translate rcs N aop N nat N t_dec_event t_dec_out b (bin_of i)) as [ti err] eqn:Et.
  destruct (bridge_step rcs N aop N aview nat N (rc_event tb) (rc_process tb) (rc_call tb) rc_drop (rc_view tb)
              t_dec_event t_dec_out t_enc_reqs t_enc_view b (bin_of i)) as [b' r] eqn:Eb.
  destruct (typed_opt_step rcs N aop N aview nat (rc_event tb) (rc_process tb) (rc_call tb) rc_drop (rc_view tb) t ti)
    as [t' tr] eqn:Ety.
  assert (Hr : is_panic r = false) by (apply (Hnp (mkCall _ _ _ _ _ (bin_of i) r err tr b b')); left; reflexivity).
  pose proof (rstep_image b t (bin_of i) b' r HR Eb Hr) as [HR' Him].
  rewrite Et in HR', Him. simpl in HR', Him. rewrite Ety in HR', Him. simpl in HR', Him.
  simpl. rewrite (call_ok_of_image b b' i r err tr Him). simpl.
  apply IH; [exact HR'|]. intros c Hc. apply Hnp. right. exact Hc.
Qed.

End ModelOk.

(* C09_ok holds of the model: whatever the replay tables (= whatever the core does) and whatever the
   history, the observations the model produces satisfy the trace predicate. *)
Theorem model_C09_ok : forall (tb : rtables) (ins : list oin),
  (forall c, In c (m_twin_run tb (map bin_of ins)) -> is_panic (c_out _ _ _ _ _ c) = false) ->
  C09_ok (map (fun p => model_obs tb (fst p) (snd p)) (combine ins (m_twin_run tb (map bin_of ins)))) = true.
Proof.
  intros tb ins Hnp. unfold C09_ok.
  change (@nil (nat * rkind)) with (snap_of (bridge_init rcs aop nat rcs_init)).
  apply model_ok_from; [apply R_init|exact Hnp].
Qed.
