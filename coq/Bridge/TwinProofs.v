(* Laws of the symbolic codec used for case evaluation, and (below) that the model's own observations
   satisfy the trace predicate C09_ok. *)
From Coq Require Import List Arith Bool ZArith NArith Lia.
From Crux Require Import Base.Res Bridge.Slab Bridge.SlabProofs Bridge.Bridge Bridge.BridgeProofs
                         Bridge.RegistryProofs Bridge.ImageProofs Bridge.Twin.
Import ListNotations.

Lemma t_req_items_law : forall l rest, t_dec_req_items (length l) (t_enc_req_items l ++ rest) = Some (l, rest).
Proof.
  induction l as [|[id [va pa]] t IH]; intros rest; simpl; [reflexivity|].
  rewrite IH, Nat2N.id. reflexivity.
Qed.

Lemma t_reqs_law : forall l rest, t_dec_reqs (t_enc_reqs l ++ rest) = Some (l, rest).
Proof. intros l rest. unfold t_dec_reqs, t_enc_reqs. simpl. rewrite Nat2N.id. apply t_req_items_law. Qed.

Lemma t_view_law : forall v rest, t_dec_view (t_enc_view v ++ rest) = Some (v, rest).
Proof.
  intros v rest. unfold t_dec_view, t_enc_view. simpl. rewrite Nat2N.id.
  assert (H : (length v <= length (v ++ rest))%nat) by (rewrite app_length; lia).
  apply Nat.leb_le in H. rewrite H.
  rewrite firstn_app, Nat.sub_diag, firstn_all. simpl. rewrite app_nil_r.
  rewrite skipn_app, Nat.sub_diag, skipn_all. reflexivity.
Qed.
