(* C13, registry part: what the registry forgets and what it keeps, for every app and every history. *)
From Coq Require Import List Arith Bool ZArith NArith Lia.
From Crux Require Import Base.Res Bridge.Slab Bridge.SlabProofs Bridge.Bridge Bridge.BridgeProofs Bridge.RegistryProofs.
Import ListNotations.

(* ------------------------------------------------------------------ slab: storage is reused before it grows *)
Section SlabReuse.
Context {V : Type}.

Lemma count_occ_le_length (l : list (entry V)) : count_occ_entries l <= length l.
Proof. induction l as [|[v|n] t IH]; simpl; lia. Qed.

Lemma count_occ_full (l : list (entry V)) : count_occ_entries l = length l -> forall k nx, nth_error l k <> Some (Vacant nx).
Proof.
  induction l as [|[v|n] t IH]; simpl; intros H k nx.
  - destruct k; discriminate.
  - destruct k; simpl; [discriminate|]. apply IH. lia.
  - pose proof (count_occ_le_length t). lia.
Qed.

(* an insertion extends the entries vector only when every slot is occupied *)
Theorem insert_reuses_vacant (s : slab V) v k s' : wf s -> slab_insert s v = Ok (k, s') ->
  len s < length (entries s) -> length (entries s') = length (entries s) /\ k < length (entries s).
Proof.
  intros Hwf Hins Hlt. pose proof Hwf as (fl & Hc & Hnd & Hall & Hlen).
  unfold slab_insert in Hins.
  destruct (chain_head _ _ _ Hc) as [Hfull | (nx & fl' & -> & Hk & Hc')].
  - exfalso. assert (fl = []) by (apply chain_at_len with (es := entries s); rewrite <- Hfull; exact Hc). subst fl.
    assert (count_occ_entries (entries s) = length (entries s)).
    { clear - Hall. induction (entries s) as [|[v0|n] t IH]; simpl; auto.
      - f_equal. apply IH. intros k nx H. exact (Hall (S k) nx H).
      - exfalso. exact (Hall 0 n eq_refl). }
    lia.
  - pose proof (nth_error_lt _ _ _ Hk) as Hl.
    destruct (Nat.eqb_spec (next s) (length (entries s))); [lia|]. rewrite Hk in Hins.
    inversion Hins; subst. simpl. rewrite upd_length. auto.
Qed.

Lemma occupied_from_keys (l : list (entry V)) : forall b,
  NoDup (map fst (occupied_from l b)) /\ forall k, In k (map fst (occupied_from l b)) -> b <= k.
Proof.
  induction l as [|e t IH]; intros b; simpl; [split; [constructor|intros k []]|].
  destruct (IH (S b)) as [Hnd Hge]. destruct e as [v|n]; simpl.
  - split.
    + constructor; auto. intros Hin. apply Hge in Hin. lia.
    + intros k [<-|Hin]; [lia|]. apply Hge in Hin. lia.
  - split; auto. intros k Hin. apply Hge in Hin. lia.
Qed.

Lemma slab_iter_keys_nodup (s : slab V) : NoDup (map fst (slab_iter s)).
Proof. apply occupied_from_keys. Qed.

Lemma slab_iter_nodup (s : slab V) : NoDup (slab_iter s).
Proof. eapply NoDup_map_inv. apply slab_iter_keys_nodup. Qed.
End SlabReuse.

Section Release.
Variables (cstate event op value view handle B : Type).
Notation eff := (eff op handle).
Notation rentry := (rentry op handle).
Notation bstate := (bstate cstate op handle).
Notation tstate := (tstate cstate handle).
Notation bytes := (list B).

Variable core_event : cstate -> event -> cstate * list eff.
Variable core_process : cstate -> cstate * list eff.
Variable core_call : cstate -> handle -> value -> cstate * bool.
Variable core_drop : cstate -> handle -> cstate.
Variable core_view : cstate -> view.
Variable dec_event : bytes -> option (event * bytes).
Variable dec_out : op -> bytes -> option (value * bytes).
Variable enc_reqs : list (nat * op) -> bytes.
Variable enc_view : view -> bytes.

Notation bridge_step := (bridge_step cstate event op value view handle B core_event core_process core_call core_drop core_view dec_event dec_out enc_reqs enc_view).
Notation resume := (resume cstate op value handle B core_call core_drop dec_out).
Notation finish := (finish cstate op handle B enc_reqs).
Notation bridge_run := (bridge_run cstate event op value view handle B core_event core_process core_call core_drop core_view dec_event dec_out enc_reqs enc_view).
Notation BInv := (BInv cstate op handle).
Notation R := (R cstate op handle).

(* ---------- what is kept ---------- *)
Lemma register_all_mono : forall (effs : list eff) (reg : slab rentry) seq log reg' seq' log' reqs,
  wf reg -> register_all reg seq log effs = Ok (reg', seq', log', reqs) ->
  forall id e, slab_get reg id = Some e -> slab_get reg' id = Some e.
Proof.
  induction effs as [|e0 rest IH]; intros reg seq log reg' seq' log' reqs Hwf Hr id e Hg; simpl in Hr.
  - inversion Hr; subst. exact Hg.
  - destruct (register_spec _ _ reg seq e0 Hwf) as [Hp | (reg1 & E1 & _ & Hn & _ & Ho & Hwf1)];
      [rewrite Hp in Hr; discriminate|].
    rewrite E1 in Hr.
    destruct (register_all reg1 (S seq) (log ++ [Issue seq (next reg)]) rest) as [[[[r2 s2] l2] q2]| | |] eqn:E2; try discriminate.
    inversion Hr; subst. eapply IH; eauto. rewrite Ho; auto. intros ->. congruence.
Qed.

Lemma finish_mono (b : bstate) c effs b' r : wf (b_reg b) -> finish b c effs = (b', r) ->
  forall id e, slab_get (b_reg b) id = Some e -> slab_get (b_reg b') id = Some e.
Proof.
  intros Hwf Hf id e Hg. unfold finish in Hf.
  destruct (register_all (b_reg b) (b_seq b) (b_log b) effs) as [[[[reg seq] log] reqs]| | |] eqn:E;
    inversion Hf; subst; auto. simpl. eapply register_all_mono; eauto.
Qed.

(* an entry other than the one addressed by the call survives the call *)
Theorem entry_kept_unless_addressed (b : bstate) i b' r id e :
  BInv b -> bridge_step b i = (b', r) -> slab_get (b_reg b) id = Some e ->
  (forall data, i <> BResp id data) -> slab_get (b_reg b') id = Some e.
Proof.
  intros HB Hs Hg Hne. destruct i as [data|id' data|]; simpl in Hs.
  - destruct (dec_event data) as [[ev rest]|]; [|inversion Hs; subst; exact Hg].
    destruct (core_event (b_core b) ev) as [c effs]. eapply finish_mono; eauto. apply HB.
  - destruct (resume b id' data) as [b1 r1] eqn:Er.
    destruct (resume_inv cstate op value handle B core_call core_drop dec_out b id' data b1 r1 HB Er) as (HB1 & _ & _ & Hother & _).
    assert (Hg1 : slab_get (b_reg b1) id = Some e).
    { rewrite Hother; auto. intros ->. apply (Hne data). reflexivity. }
    destruct r1; try (inversion Hs; subst; exact Hg1).
    destruct (core_process (b_core b1)) as [c effs]. eapply finish_mono; eauto. apply HB1.
  - inversion Hs; subst. exact Hg.
Qed.

(* a stream's entry survives every call, including the responses addressed to it - whether they are
   delivered, rejected with FinishedMany or undecodable: the registry never forgets a stream *)
Theorem many_entry_never_removed (b : bstate) i b' r id e :
  BInv b -> bridge_step b i = (b', r) -> slab_get (b_reg b) id = Some e -> r_kind e = KMany ->
  slab_get (b_reg b') id = Some e.
Proof.
  intros HB Hs Hg Hk.
  destruct i as [data|id' data|]; try (eapply entry_kept_unless_addressed; eauto; intros; discriminate).
  destruct (Nat.eq_dec id' id) as [->|Hne].
  2:{ eapply entry_kept_unless_addressed; eauto. intros d H. inversion H. contradiction. }
  simpl in Hs. unfold Bridge.resume in Hs. rewrite Hg, Hk in Hs.
  destruct (dec_out (r_op e) data) as [[v rest]|].
  - destruct (core_call (b_core b) (r_h e) v) as [c ok]. destruct ok.
    + simpl in Hs. destruct (core_process c) as [c2 effs]. eapply (finish_mono (mkB c (b_reg b) (b_seq b) (b_log b))); eauto. apply HB.
    + inversion Hs; subst. exact Hg.
  - inversion Hs; subst. exact Hg.
Qed.

Theorem many_entry_kept_for_ever : forall is (b : bstate) id e,
  BInv b -> slab_get (b_reg b) id = Some e -> r_kind e = KMany ->
  slab_get (b_reg (snd (bridge_run b is))) id = Some e.
Proof.
  induction is as [|i rest IH]; intros b id e HB Hg Hk; simpl; auto.
  destruct (bridge_step b i) as [b' r] eqn:E.
  pose proof (many_entry_never_removed _ _ _ _ _ _ HB E Hg Hk) as Hg'.
  pose proof (step_inv cstate event op value view handle B core_event core_process core_call core_drop core_view
                dec_event dec_out enc_reqs enc_view _ _ _ _ HB E) as HB'.
  specialize (IH b' id e HB' Hg' Hk). destruct (bridge_run b' rest) as [rs bf]. exact IH.
Qed.

(* a notification's entry is kept until the shell (wrongly) responds to it *)
Theorem never_entry_kept_until_addressed : forall is (b : bstate) id e,
  BInv b -> slab_get (b_reg b) id = Some e ->
  (forall data, ~ In (BResp id data) is) ->
  slab_get (b_reg (snd (bridge_run b is))) id = Some e.
Proof.
  induction is as [|i rest IH]; intros b id e HB Hg Hno; simpl; auto.
  destruct (bridge_step b i) as [b' r] eqn:E.
  assert (Hg' : slab_get (b_reg b') id = Some e).
  { eapply entry_kept_unless_addressed; eauto. intros data ->. apply (Hno data). left. reflexivity. }
  pose proof (step_inv cstate event op value view handle B core_event core_process core_call core_drop core_view
                dec_event dec_out enc_reqs enc_view _ _ _ _ HB E) as HB'.
  assert (Hno' : forall data, ~ In (BResp id data) rest) by (intros data Hin; apply (Hno data); right; exact Hin).
  specialize (IH b' id e HB' Hg' Hno'). destruct (bridge_run b' rest) as [rs bf]. exact IH.
Qed.

(* ---------- what is released ---------- *)
(* any response to a one-shot's id - delivered or undecodable - releases its entry: afterwards the id is
   free, or already reissued to a request created in this very call *)
Theorem once_entry_released (b : bstate) id data b' r e :
  BInv b -> slab_get (b_reg b) id = Some e -> r_kind e = KOnce ->
  bridge_step b (BResp id data) = (b', r) -> is_panic r = false ->
  slab_get (b_reg b') id = None \/ exists e', slab_get (b_reg b') id = Some e' /\ b_seq b <= r_seq e'.
Proof.
  intros HB Hg Hk Hs Hnp. simpl in Hs.
  destruct (resume b id data) as [b1 r1] eqn:Er.
  assert (Hfree : slab_get (b_reg b1) id = None /\ BInv b1 /\ b_seq b1 = b_seq b).
  { unfold Bridge.resume in Er. rewrite Hg, Hk in Er. unfold set_never in Er.
    destruct (dec_out (r_op e) data) as [[v rest]|];
      destruct (forget_inv cstate op handle b _ id e (mkR KNever (r_h e) (r_op e) (r_seq e)) _ _ _ HB Hg eq_refl Er)
        as (H1 & _ & _ & H3 & _ & H5 & _); auto. }
  destruct Hfree as (Hnone & HB1 & Hseq1).
  destruct r1; try (inversion Hs; subst; left; exact Hnone).
  destruct (core_process (b_core b1)) as [c effs].
  unfold Bridge.finish in Hs.
  destruct (register_all (b_reg b1) (b_seq b1) (b_log b1) effs) as [[[[reg seq] log] reqs]| | |] eqn:E;
    inversion Hs; subst; simpl in *; try discriminate; try (left; exact Hnone).
  destruct (slab_get reg id) as [e'|] eqn:Ge; [right|left; reflexivity].
  exists e'. split; [reflexivity|].
  (* the entry now under id was registered by this call: its arrival number is at least b_seq *)
  destruct HB1 as (Hwf1 & HL1 & Hlw1).
  destruct (register_all_log op handle _ _ _ _ _ _ _ _ Hwf1 HL1 Hlw1 E) as (_ & HL2 & _ & Hlog).
  assert (Hin : In (r_seq e', id) (live log)) by (apply HL2; eauto).
  rewrite Hlog in Hin.
  (* pairs live after appending the issues: either live before (impossible: id was free) or issued now *)
  clear - Hin Hnone HL1 Hseq1.
  assert (Hgen : forall reqs0 seq0 l0, (forall s, In (s, id) (live l0) -> b_seq b <= s) -> b_seq b <= seq0 ->
             forall s, In (s, id) (live (l0 ++ issues_of op seq0 reqs0)) -> b_seq b <= s).
  { induction reqs0 as [|[i0 o0] t IH]; intros seq0 l0 Hl0 Hle s Hs; simpl in Hs.
    - rewrite app_nil_r in Hs. auto.
    - replace (l0 ++ Issue seq0 i0 :: issues_of op (S seq0) t) with ((l0 ++ [Issue seq0 i0]) ++ issues_of op (S seq0) t) in Hs
        by (rewrite <- app_assoc; reflexivity).
      eapply (IH (S seq0) (l0 ++ [Issue seq0 i0])); eauto.
      intros s0 Hs0. rewrite live_snoc in Hs0. simpl in Hs0. apply in_app_or in Hs0 as [H|[H|[]]]; auto.
      inversion H; subst. lia. }
  eapply (Hgen reqs (b_seq b1) (b_log b1)); eauto; [|lia].
  intros s Hs. apply HL1 in Hs as (e0 & He0 & _). congruence.
Qed.

(* ---------- the bound ---------- *)
Definition resolvable_entries (reg : slab rentry) : list (nat * rentry) :=
  filter (fun p => negb (rkind_eqb (r_kind (snd p)) KNever)) (slab_iter reg).

Definition held_resolvable (held : list (option (rkind * handle))) : list nat :=
  filter (fun s => match nth_error held s with Some (Some (k, _)) => negb (rkind_eqb k KNever) | _ => false end)
         (seq 0 (length held)).

(* every registered one-shot or stream entry belongs to a distinct request the typed shell still holds and
   has not used up; hence their number is bounded by the number of such requests *)
Theorem registry_bound (b : bstate) (t : tstate) : R b t ->
  length (resolvable_entries (b_reg b)) <= length (held_resolvable (t_held t)).
Proof.
  intros (_ & _ & (Hwf & Hheld & Hinj)).
  rewrite <- (map_length (fun p : nat * rentry => r_seq (snd p)) (resolvable_entries (b_reg b))).
  apply NoDup_incl_length.
  - (* distinct entries have distinct arrival numbers *)
    unfold resolvable_entries.
    assert (Hnd : NoDup (slab_iter (b_reg b))) by apply slab_iter_nodup.
    assert (Hin : forall p, In p (slab_iter (b_reg b)) -> slab_get (b_reg b) (fst p) = Some (snd p)).
    { intros [k v] Hp. apply slab_iter_in. exact Hp. }
    revert Hnd Hin. generalize (slab_iter (b_reg b)). induction l as [|p l IH]; intros Hnd Hin; simpl; [constructor|].
    inversion Hnd as [|? ? Hnp Hnd']; subst.
    destruct (negb (rkind_eqb (r_kind (snd p)) KNever)); simpl; [|apply IH; auto; intros q Hq; apply Hin; right; exact Hq].
    constructor; [|apply IH; auto; intros q Hq; apply Hin; right; exact Hq].
    intros Hm. apply in_map_iff in Hm as (q & Hq & Hql). apply filter_In in Hql as [Hql _].
    apply Hnp. assert (fst q = fst p).
    { eapply Hinj; [apply Hin; right; exact Hql|apply Hin; left; reflexivity|exact Hq]. }
    pose proof (Hin q (or_intror Hql)) as G1. pose proof (Hin p (or_introl eq_refl)) as G2.
    rewrite H in G1. rewrite G1 in G2. inversion G2. destruct p, q; simpl in *; subst. exact Hql.
  - intros s Hs. apply in_map_iff in Hs as ([k v] & <- & Hp). unfold resolvable_entries in Hp.
    apply filter_In in Hp as [Hp Hk]. apply slab_iter_in in Hp. simpl in *.
    pose proof (Hheld _ _ Hp) as Hh. unfold held_resolvable. apply filter_In. split.
    + apply in_seq. split; [lia|]. simpl. eapply nth_error_lt; eauto.
    + rewrite Hh. exact Hk.
Qed.

End Release.
