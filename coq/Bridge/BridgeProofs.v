(* Proofs about the bridge model: the bridge run is the image of the typed run (simulation through
   [translate]), the registry invariants (ids fresh when issued, reissued only after a Forget),
   routing of responses. *)
From Coq Require Import List Arith Bool ZArith NArith Lia.
From Crux Require Import Base.Res Bridge.Slab Bridge.SlabProofs Bridge.Bridge.
Import ListNotations.

Section BridgeProofs.
Variables (cstate event op value view handle B : Type).
Notation eff := (eff op handle).
Notation rentry := (rentry op handle).
Notation bstate := (bstate cstate op handle).
Notation tstate := (tstate cstate handle).
Notation tout := (tout op view handle).
Notation bytes := (list B).

Variable core_event : cstate -> event -> cstate * list eff.
Variable core_process : cstate -> cstate * list eff.
Variable core_call : cstate -> handle -> value -> cstate * bool.
Variable core_drop : cstate -> handle -> cstate.
Variable core_view : cstate -> view.
Variable dec_event : bytes -> option (event * bytes).
Variable dec_out : op -> bytes -> option (value * bytes).
Variable enc_reqs : list (nat * op) -> bytes.
Variable enc_view : view -> bytes.

Notation typed_step := (typed_step cstate event op value view handle core_event core_process core_call core_drop core_view).
Notation typed_opt_step := (typed_opt_step cstate event op value view handle core_event core_process core_call core_drop core_view).
Notation bridge_step := (bridge_step cstate event op value view handle B core_event core_process core_call core_drop core_view dec_event dec_out enc_reqs enc_view).
Notation resume := (resume cstate op value handle B core_call core_drop dec_out).
Notation finish := (finish cstate op handle B enc_reqs).
Notation translate := (translate cstate event op value handle B dec_event dec_out).
Notation twin_run := (twin_run cstate event op value view handle B core_event core_process core_call core_drop core_view dec_event dec_out enc_reqs enc_view).
Notation bridge_run := (bridge_run cstate event op value view handle B core_event core_process core_call core_drop core_view dec_event dec_out enc_reqs enc_view).
Notation hold := (hold op handle).

(* ------------------------------------------------------------------ small list facts *)
Lemma combine_fst_snd {X Y} (l : list (X * Y)) : combine (map fst l) (map snd l) = l.
Proof. induction l as [|[x y] t IH]; simpl; congruence. Qed.

Lemma hold_length l : length (hold l) = length l.
Proof. apply map_length. Qed.

Lemma hold_app l1 l2 : hold (l1 ++ l2) = hold l1 ++ hold l2.
Proof. apply map_app. Qed.

(* ------------------------------------------------------------------ the registry against the held requests *)
Definition RegInv (reg : slab rentry) (held : list (option (rkind * handle))) : Prop :=
  wf reg /\
  (forall id e, slab_get reg id = Some e -> nth_error held (r_seq e) = Some (Some (r_kind e, r_h e))) /\
  (forall id1 id2 e1 e2, slab_get reg id1 = Some e1 -> slab_get reg id2 = Some e2 ->
                         r_seq e1 = r_seq e2 -> id1 = id2).

Definition R (b : bstate) (t : tstate) : Prop :=
  b_core b = t_core t /\ b_seq b = length (t_held t) /\ RegInv (b_reg b) (t_held t).

Lemma RegInv_seq_lt reg held id e : RegInv reg held -> slab_get reg id = Some e -> r_seq e < length held.
Proof. intros (_ & H & _) Hg. apply H in Hg. eapply nth_error_lt; eauto. Qed.

(* ---------- register ---------- *)
Lemma register_spec (reg : slab rentry) seq (e : eff) : wf reg ->
  register reg seq e = Panic \/
  exists reg', register reg seq e = Ok (reg', next reg) /\
               N.lt (N.of_nat (next reg)) U32_LIMIT /\
               slab_get reg (next reg) = None /\
               slab_get reg' (next reg) = Some (mkR (e_kind e) (e_h e) (e_op e) seq) /\
               (forall j, j <> next reg -> slab_get reg' j = slab_get reg j) /\
               wf reg'.
Proof.
  intros Hwf. unfold register.
  destruct (insert_spec reg (mkR (e_kind e) (e_h e) (e_op e) seq) Hwf) as (reg' & E & Hn & Hs & Ho & Hwf').
  rewrite E. destruct (N.ltb_spec (N.of_nat (next reg)) U32_LIMIT) as [Hlt|Hge]; [right|left; reflexivity].
  exists reg'. auto 10.
Qed.

(* what register_all does to the registry, in terms of the requests a typed shell would now hold *)
Lemma register_all_sim : forall (effs : list eff) reg seq log held reg' seq' log' reqs,
  RegInv reg held -> seq = length held ->
  register_all reg seq log effs = Ok (reg', seq', log', reqs) ->
  RegInv reg' (held ++ hold effs) /\ seq' = length (held ++ hold effs) /\
  map snd reqs = map e_op effs /\
  (forall id e, slab_get reg id = Some e -> slab_get reg' id = Some e) /\
  (forall j id o, nth_error reqs j = Some (id, o) ->
     exists ef, nth_error effs j = Some ef /\ slab_get reg id = None /\
                slab_get reg' id = Some (mkR (e_kind ef) (e_h ef) (e_op ef) (seq + j))).
Proof.
  induction effs as [|e rest IH]; intros reg seq log held reg' seq' log' reqs HI Hseq Hr; simpl in Hr.
  - inversion Hr; subst. simpl. rewrite app_nil_r.
    split; [exact HI|]. split; [reflexivity|]. split; [reflexivity|]. split; [auto|].
    intros [|j] id o Hj; discriminate.
  - destruct HI as (Hwf & Hheld & Hinj). subst seq.
    destruct (register_spec reg (length held) e Hwf) as [Hp | (reg1 & E1 & Hlt & Hn & Hs & Ho & Hwf1)];
      [rewrite Hp in Hr; discriminate|].
    rewrite E1 in Hr.
    destruct (register_all reg1 (S (length held)) (log ++ [Issue (length held) (next reg)]) rest)
      as [[[[reg2 seq2] log2] reqs2]| | |] eqn:E2; try discriminate.
    inversion Hr; subst reg' seq' log' reqs. clear Hr.
    assert (HI1 : RegInv reg1 (held ++ [Some (e_kind e, e_h e)])).
    { split; [exact Hwf1|]. split.
      - intros id en Hg. destruct (Nat.eq_dec id (next reg)) as [->|Hne].
        + rewrite Hs in Hg. inversion Hg; subst en. simpl.
          rewrite nth_error_app2 by lia. rewrite Nat.sub_diag. reflexivity.
        + rewrite Ho in Hg by auto. rewrite nth_error_app1; eauto.
          eapply nth_error_lt; eauto.
      - intros id1 id2 e1 e2 H1 H2 Hs12.
        destruct (Nat.eq_dec id1 (next reg)) as [->|Hne1]; destruct (Nat.eq_dec id2 (next reg)) as [->|Hne2]; auto.
        + rewrite Hs in H1. inversion H1; subst e1. simpl in Hs12.
          rewrite Ho in H2 by auto. apply Hheld in H2. apply nth_error_lt in H2. lia.
        + rewrite Hs in H2. inversion H2; subst e2. simpl in Hs12.
          rewrite Ho in H1 by auto. apply Hheld in H1. apply nth_error_lt in H1. lia.
        + rewrite Ho in H1, H2 by auto. eauto. }
    assert (Hlen1 : S (length held) = length (held ++ [Some (e_kind e, e_h e)])) by (rewrite app_length; simpl; lia).
    destruct (IH _ _ _ _ _ _ _ _ HI1 Hlen1 E2) as (HI2 & Hseq2 & Hops & Hmono & Hnew).
    replace (held ++ hold (e :: rest)) with ((held ++ [Some (e_kind e, e_h e)]) ++ hold rest)
      by (rewrite <- app_assoc; reflexivity).
    split; [exact HI2|]. split; [exact Hseq2|]. split; [|split].
    + simpl. rewrite Hops. reflexivity.
    + intros id en Hg. apply Hmono. destruct (Nat.eq_dec id (next reg)) as [->|Hne]; [congruence|].
      rewrite Ho; auto.
    + intros [|j] id o Hj; simpl in Hj.
      * inversion Hj; subst id o. exists e. simpl. repeat split; auto.
        rewrite Nat.add_0_r. apply Hmono. exact Hs.
      * destruct (Hnew _ _ _ Hj) as (ef & Hef & Hnone & Hsome). exists ef. simpl. repeat split; auto.
        -- destruct (Nat.eq_dec id (next reg)) as [->|Hne]; [congruence|]. rewrite <- Ho; auto.
        -- replace (length held + S j) with (S (length held) + j) by lia. exact Hsome.
Qed.

Lemma register_all_no_err : forall (effs : list eff) reg seq log,
  wf reg -> (exists x, register_all reg seq log effs = Ok x) \/ register_all reg seq log effs = Panic.
Proof.
  induction effs as [|e rest IH]; intros reg seq log Hwf; simpl; eauto.
  destruct (register_spec reg seq e Hwf) as [Hp | (reg1 & E1 & _ & _ & _ & _ & Hwf1)].
  - rewrite Hp. auto.
  - rewrite E1. destruct (IH reg1 (S seq) (log ++ [Issue seq (next reg)]) Hwf1) as [[[[[r s] l] q] E]|E]; rewrite E; eauto.
Qed.

(* ---------- the image of one call ---------- *)
Definition image (b b' : bstate) (i : binput B) (r : res bytes) (err : option Z) (tr : tout) : Prop :=
  match err with
  | Some e => r = Err e
  | None =>
      match tr with
      | TEffects effs =>
          exists ids, length ids = length effs /\
                      r = Ok (enc_reqs (combine ids (map e_op effs))) /\
                      (forall j id ef, nth_error ids j = Some id -> nth_error effs j = Some ef ->
                         slab_get (b_reg b') id = Some (mkR (e_kind ef) (e_h ef) (e_op ef) (b_seq b + j))) /\
                      (forall id, In id ids -> slab_get (b_reg b) id = None \/ exists data, i = BResp id data)
      | TErr e => r = Err e
      | TViewOut v => r = Ok (enc_view v)
      | TUnit => False
      end
  end.

Lemma finish_sim (b : bstate) c effs held b' r :
  RegInv (b_reg b) held -> b_seq b = length held ->
  finish b c effs = (b', r) -> is_panic r = false ->
  R b' (mkT c (held ++ hold effs)) /\
  exists ids, length ids = length effs /\
              r = Ok (enc_reqs (combine ids (map e_op effs))) /\
              (forall j id ef, nth_error ids j = Some id -> nth_error effs j = Some ef ->
                 slab_get (b_reg b') id = Some (mkR (e_kind ef) (e_h ef) (e_op ef) (b_seq b + j))) /\
              (forall id, In id ids -> slab_get (b_reg b) id = None).
Proof.
  intros HI Hseq Hf Hnp. unfold finish in Hf.
  destruct (register_all_no_err effs (b_reg b) (b_seq b) (b_log b) (proj1 HI)) as [[[[[reg seq] log] reqs] E]|E];
    rewrite E in Hf; inversion Hf; subst b' r; clear Hf; [|discriminate].
  destruct (register_all_sim _ _ _ _ _ _ _ _ _ HI Hseq E) as (HI' & Hseq' & Hops & Hmono & Hnew).
  split.
  - split; [reflexivity|]. split; simpl; auto.
  - simpl. exists (map fst reqs). split; [|split; [|split]].
    + rewrite map_length. rewrite <- (map_length snd reqs), Hops, map_length. reflexivity.
    + rewrite <- Hops, combine_fst_snd. reflexivity.
    + intros j id ef Hid Hef.
      destruct (nth_error reqs j) as [[id' o]|] eqn:Ej.
      * rewrite nth_error_map, Ej in Hid. simpl in Hid. inversion Hid; subst id'.
        destruct (Hnew _ _ _ Ej) as (ef' & Hef' & _ & Hs). congruence.
      * rewrite nth_error_map, Ej in Hid. discriminate.
    + intros id Hin. apply In_nth_error in Hin as (j & Hj).
      destruct (nth_error reqs j) as [[id' o]|] eqn:Ej.
      * rewrite nth_error_map, Ej in Hj. simpl in Hj. inversion Hj; subst id'.
        destruct (Hnew _ _ _ Ej) as (ef' & _ & Hn & _). exact Hn.
      * rewrite nth_error_map, Ej in Hj. discriminate.
Qed.

Lemma finish_image (b b1 : bstate) c effs held b' r (i : binput B) :
  RegInv (b_reg b1) held -> b_seq b1 = length held -> b_seq b1 = b_seq b ->
  (forall id, slab_get (b_reg b1) id = None -> slab_get (b_reg b) id = None \/ exists data, i = BResp id data) ->
  finish b1 c effs = (b', r) -> is_panic r = false ->
  R b' (mkT c (held ++ hold effs)) /\ image b b' i r None (TEffects effs).
Proof.
  intros HI Hseq Hsb Hfresh Hf Hnp.
  destruct (finish_sim b1 c effs held b' r HI Hseq Hf Hnp) as (HR & ids & Hlen & Hr & Hreg & Hn).
  split; [exact HR|]. simpl. exists ids. rewrite <- Hsb. auto 10.
Qed.

(* removing the entry under [id] (after optionally overwriting it in place) *)
Lemma forget_spec (b : bstate) c id e e' r :
  wf (b_reg b) -> slab_get (b_reg b) id = Some e ->
  let b1 := mkB (b_core b) (slab_set (b_reg b) id e') (b_seq b) (b_log b) in
  exists reg', forget cstate op handle b1 c id (r_seq e) r = (mkB c reg' (b_seq b) (b_log b ++ [Forget (r_seq e) id]), r) /\
               slab_get reg' id = None /\ (forall j, j <> id -> slab_get reg' j = slab_get (b_reg b) j) /\
               next reg' = id /\ wf reg'.
Proof.
  intros Hwf Hg b1.
  destruct (set_spec (b_reg b) id e e' Hwf Hg) as (Hs & Ho & _ & Hwf1).
  destruct (remove_spec _ id e' Hwf1 Hs) as (reg' & E & Hn & Ho' & Hnx & Hwf').
  exists reg'. unfold forget. simpl. rewrite E. repeat split; auto.
  intros j Hj. rewrite Ho', Ho; auto.
Qed.

Lemma forget_spec0 (b : bstate) c id e r :
  wf (b_reg b) -> slab_get (b_reg b) id = Some e ->
  exists reg', forget cstate op handle b c id (r_seq e) r = (mkB c reg' (b_seq b) (b_log b ++ [Forget (r_seq e) id]), r) /\
               slab_get reg' id = None /\ (forall j, j <> id -> slab_get reg' j = slab_get (b_reg b) j) /\
               next reg' = id /\ wf reg'.
Proof.
  intros Hwf Hg.
  destruct (remove_spec _ id e Hwf Hg) as (reg' & E & Hn & Ho' & Hnx & Hwf').
  exists reg'. unfold forget. rewrite E. repeat split; auto.
Qed.

Lemma RegInv_forget reg reg' held id e x :
  RegInv reg held -> slab_get reg id = Some e ->
  slab_get reg' id = None -> (forall j, j <> id -> slab_get reg' j = slab_get reg j) -> wf reg' ->
  RegInv reg' (upd held (r_seq e) x).
Proof.
  intros (Hwf & Hheld & Hinj) Hg Hn Ho Hwf'. split; [exact Hwf'|]. split.
  - intros id' e' Hg'. destruct (Nat.eq_dec id' id) as [->|Hne]; [congruence|].
    rewrite Ho in Hg' by auto. rewrite nth_error_upd_other.
    + eauto.
    + intros Heq. apply Hne. eapply Hinj; eauto.
  - intros id1 id2 e1 e2 H1 H2 Hs.
    destruct (Nat.eq_dec id1 id) as [->|Hne1]; [congruence|].
    destruct (Nat.eq_dec id2 id) as [->|Hne2]; [congruence|].
    rewrite Ho in H1, H2 by auto. eauto.
Qed.

Lemma RegInv_app reg held extra : RegInv reg held -> RegInv reg (held ++ extra).
Proof.
  intros (Hwf & Hheld & Hinj). split; [auto|]. split; [|auto].
  intros id e Hg. pose proof (Hheld _ _ Hg) as H. rewrite nth_error_app1; auto. eapply nth_error_lt; eauto.
Qed.

(* ---------- one bridge call is the image of the mirrored typed call ---------- *)
Theorem step_image (b : bstate) (t : tstate) i b' r :
  R b t -> bridge_step b i = (b', r) -> is_panic r = false ->
  R b' (fst (typed_opt_step t (fst (translate b i)))) /\
  image b b' i r (snd (translate b i)) (snd (typed_opt_step t (fst (translate b i)))).
Proof.
  intros (Hc & Hseq & HI) Hstep Hnp.
  destruct t as [tc held]. simpl in Hc, Hseq, HI.
  destruct i as [data | id data | ]; simpl in Hstep |- *.
  - (* process_event *)
    destruct (dec_event data) as [[ev rest]|]; simpl.
    + rewrite Hc in Hstep. destruct (core_event tc ev) as [c effs]. simpl.
      eapply (finish_image b b); eauto.
    + inversion Hstep; subst b' r. simpl. split; [exact (conj Hc (conj Hseq HI))|reflexivity].
  - (* handle_response *)
    unfold resume in Hstep.
    destruct (slab_get (b_reg b) id) as [e|] eqn:Hg; simpl.
    2:{ inversion Hstep; subst b' r. simpl. split; [exact (conj Hc (conj Hseq HI))|reflexivity]. }
    pose proof (proj1 HI) as Hwf.
    pose proof (proj1 (proj2 HI) _ _ Hg) as Hheld.
    destruct (r_kind e) eqn:Hk.
    + (* a notification's entry: Err(Never), entry forgotten *)
      destruct (forget_spec0 b (b_core b) id e (Err E_Never) Hwf Hg) as (reg' & E & Hn & Ho & _ & Hwf').
      rewrite E in Hstep. inversion Hstep; subst b' r. simpl.
      rewrite Hheld. simpl. split; [|reflexivity].
      split; [exact Hc|]. split; simpl; [rewrite upd_length; exact Hseq|].
      eapply RegInv_forget; eauto.
    + (* one-shot *)
      destruct (dec_out (r_op e) data) as [[v rest]|]; simpl.
      * destruct (forget_spec b (fst (core_call (b_core b) (r_h e) v)) id e
                    (mkR KNever (r_h e) (r_op e) (r_seq e)) (Ok tt) Hwf Hg) as (reg' & E & Hn & Ho & _ & Hwf').
        unfold set_never in Hstep. rewrite E in Hstep. simpl in Hstep.
        rewrite Hheld. rewrite Hc in Hstep.
        destruct (core_call tc (r_h e) v) as [c1 ok]. simpl in Hstep.
        destruct (core_process c1) as [c2 effs]. simpl.
        assert (HI1 : RegInv reg' (upd held (r_seq e) (Some (KNever, r_h e)))) by (eapply RegInv_forget; eauto).
        eapply (finish_image b (mkB c1 reg' (b_seq b) (b_log b ++ [Forget (r_seq e) id]))); eauto.
        -- simpl. rewrite upd_length. exact Hseq.
        -- simpl. intros id' Hn'. destruct (Nat.eq_dec id' id) as [->|Hne]; [right; eauto|left].
           rewrite <- Ho; auto.
      * destruct (forget_spec b (core_drop (b_core b) (r_h e)) id e
                    (mkR KNever (r_h e) (r_op e) (r_seq e)) (Err E_DeserializeOutput) Hwf Hg) as (reg' & E & Hn & Ho & _ & Hwf').
        unfold set_never in Hstep. rewrite E in Hstep. inversion Hstep; subst b' r. simpl.
        rewrite Hheld. simpl. split; [|reflexivity].
        split; [simpl; rewrite Hc; reflexivity|]. split; simpl; [rewrite upd_length; exact Hseq|].
        eapply RegInv_forget; eauto.
    + (* stream *)
      destruct (dec_out (r_op e) data) as [[v rest]|]; simpl.
      * rewrite Hheld. rewrite Hc in Hstep.
        destruct (core_call tc (r_h e) v) as [c1 ok]. destruct ok; simpl in Hstep |- *.
        -- destruct (core_process c1) as [c2 effs]. simpl.
           eapply (finish_image b (mkB c1 (b_reg b) (b_seq b) (b_log b))); eauto.
        -- inversion Hstep; subst b' r. simpl. split; [|reflexivity].
           split; [reflexivity|]. split; [exact Hseq|exact HI].
      * inversion Hstep; subst b' r. simpl. split; [exact (conj Hc (conj Hseq HI))|reflexivity].
  - (* view *)
    inversion Hstep; subst b' r. simpl. rewrite Hc. split; [exact (conj Hc (conj Hseq HI))|reflexivity].
Qed.

End BridgeProofs.
