From Coq Require Import List Arith Bool NArith Lia.
From Crux Require Import Bridge.Timer.
Import ListNotations.

Lemma mem_in x l : mem x l = true <-> In x l.
Proof.
  unfold mem. rewrite existsb_exists. split.
  - intros (y & Hy & E). apply N.eqb_eq in E. subst. exact Hy.
  - intros H. exists x. split; auto. apply N.eqb_refl.
Qed.

Lemma in_remove_id x y l : In y (remove_id x l) <-> In y l /\ y <> x.
Proof.
  unfold remove_id. rewrite filter_In, negb_true_iff, N.eqb_neq. split; intros [A B]; split; auto.
Qed.

Lemma NoDup_remove_id x l : NoDup l -> NoDup (remove_id x l).
Proof. intros H. unfold remove_id. apply NoDup_filter. exact H. Qed.

(* every id in the cleared set belongs to a timer whose task is still waiting, or was cleared when no task
   was waiting on it (and then stays for ever) *)
Definition TInv (t : timers) : Prop :=
  NoDup (tm_cleared t) /\ (forall id, In id (tm_cleared t) -> In id (tm_pending t) \/ In id (tm_stale t)).

Lemma TInv_init n : TInv (timers_init n).
Proof. split; [constructor|intros id []]. Qed.

Lemma tstep_TInv t a : TInv t -> TInv (tstep t a).
Proof.
  intros (Hnd & Hin). destruct a as [|id|id]; simpl.
  - split; auto. intros id H. destruct (Hin id H); [left; apply in_or_app; auto|auto].
  - split.
    + destruct (mem id (tm_cleared t)) eqn:E; auto. constructor; auto. intros H. apply mem_in in H. congruence.
    + intros x Hx.
      assert (Hcase : In x (tm_cleared t) \/ x = id).
      { destruct (mem id (tm_cleared t)); [auto|destruct Hx; auto]. }
      destruct Hcase as [H|Heq]; [|subst x].
      * destruct (Hin x H); [auto|]. right. destruct (mem id (tm_pending t) || mem id (tm_stale t)); [auto|right; auto].
      * destruct (mem id (tm_pending t)) eqn:Ep; simpl; [left; apply mem_in; exact Ep|].
        right. destruct (mem id (tm_stale t)) eqn:Es; [apply mem_in; exact Es|left; reflexivity].
  - destruct (mem id (tm_pending t)); [|split; auto]. simpl. split; [apply NoDup_remove_id; auto|].
    intros x Hx. apply in_remove_id in Hx as [Hx Hne]. destruct (Hin x Hx); [left; apply in_remove_id; auto|auto].
Qed.

Theorem trun_TInv : forall acts t, TInv t -> TInv (trun t acts).
Proof. induction acts as [|a rest IH]; intros t H; simpl; auto. apply IH. apply tstep_TInv. exact H. Qed.

(* the size of the cleared set is bounded by the waiting timers plus the stale clears *)
Theorem cleared_bound t : TInv t -> length (tm_cleared t) <= length (tm_pending t) + length (tm_stale t).
Proof.
  intros (Hnd & Hin). rewrite <- app_length. apply NoDup_incl_length; auto.
  intros x Hx. apply in_or_app. auto.
Qed.

(* without clears of timers nobody waits on, the cleared set is bounded by the waiting timers *)
Lemma no_stale_step t a : tm_stale t = [] ->
  (forall id, a = TClear id -> In id (tm_pending t)) -> tm_stale (tstep t a) = [].
Proof.
  intros Hs Hc. destruct a as [|id|id]; simpl; auto.
  - assert (H : mem id (tm_pending t) = true) by (apply mem_in; auto). rewrite H. exact Hs.
  - destruct (mem id (tm_pending t)); auto.
Qed.
