(* Executable model of crux_core's serialized bridge and of the typed core interface it wraps.

   bridge/mod.rs        BridgeWithSerializer::{process_event, handle_response, process, view}
                        (Bridge = the same with bincode (de)serializers)
   bridge/registry.rs   ResolveRegistry::{register, resume} over Slab<ResolveSerialized>
   bridge/request_serde.rs  ResolveSerialized::resolve, Request::serialize, Resolve::deserializing
   core/resolve.rs      Resolve::resolve          core/mod.rs   Core::{process_event, resolve, view}
   crux_macros          Effect::serialize: variant i of Effect |-> variant i of EffectFfi, operation kept

   The app with its executor (the "core") and the byte codec are Section variables, so everything proved
   about this model holds for every app and every lawful codec.  The core is seen through exactly the
   entry points the bridge / a typed shell use:
     core_event   = Core::process_event(ev)           (update, spawn the command, run to quiescence, drain effects)
     core_process = Core::process()                   (run to quiescence after a resolve, drain effects)
     core_call    = invoking the resolve closure h of a request with a value (Once: consumed by the call;
                    Many: returns whether the consumer is still there)
     core_drop    = dropping a resolve closure that was never / will never be called
     core_view    = Core::view()
   Each effect the core hands over carries its operation (the FFI payload, variant included), the
   arity of its resolve callback and a handle naming the callback.                                    *)
From Coq Require Import List Arith Bool ZArith NArith.
From Crux Require Import Base.Res Bridge.Slab.
Import ListNotations.

Inductive rkind : Type := KNever | KOnce | KMany.

Definition rkind_eqb (a b : rkind) : bool :=
  match a, b with KNever, KNever | KOnce, KOnce | KMany, KMany => true | _, _ => false end.

(* BridgeError / ResolveError as the integer carried by [Err] *)
Definition E_DeserializeEvent : Z := 1.    (* BridgeError::DeserializeEvent *)
Definition E_DeserializeOutput : Z := 2.   (* BridgeError::DeserializeOutput *)
Definition E_Never : Z := 3.               (* [BridgeError::ProcessResponse(] ResolveError::Never [)] *)
Definition E_FinishedMany : Z := 4.        (* [BridgeError::ProcessResponse(] ResolveError::FinishedMany [)] *)
Definition E_NotHeld : Z := 7.             (* typed shell only: resolving a request it no longer holds (not expressible in Rust) *)

(* ghost events of the registry: which request (by arrival number) was issued / forgotten under which id *)
Inductive gev : Type := Issue (seq id : nat) | Forget (seq id : nat).

(* requests currently registered according to the ghost log: (arrival number, id) *)
Definition pair_eqb (a b : nat * nat) : bool := Nat.eqb (fst a) (fst b) && Nat.eqb (snd a) (snd b).
Definition live_step (acc : list (nat * nat)) (ev : gev) : list (nat * nat) :=
  match ev with
  | Issue s i => acc ++ [(s, i)]
  | Forget s i => filter (fun p => negb (pair_eqb p (s, i))) acc
  end.
Definition live (log : list gev) : list (nat * nat) := fold_left live_step log [].

Section Bridge.
Variables (cstate event op value view handle B : Type).
Definition bytes : Type := list B.

Record eff : Type := mkEff { e_op : op; e_kind : rkind; e_h : handle }.

Variable core_event : cstate -> event -> cstate * list eff.
Variable core_process : cstate -> cstate * list eff.
Variable core_call : cstate -> handle -> value -> cstate * bool.
Variable core_drop : cstate -> handle -> cstate.
Variable core_view : cstate -> view.

(* the codec: what the (de)serializers given to the bridge do *)
Variable dec_event : bytes -> option (event * bytes).
Variable dec_out : op -> bytes -> option (value * bytes).     (* erased_serde::deserialize::<Op::Output> *)
Variable enc_reqs : list (nat * op) -> bytes.                  (* Vec<Request<EffectFfi>> *)
Variable enc_view : view -> bytes.

(* ------------------------------------------------------------------ typed side *)
(* A typed shell holds the Request values it was given; index = arrival number of the request. *)
Record tstate : Type := mkT { t_core : cstate; t_held : list (option (rkind * handle)) }.

Inductive tinput : Type :=
| TEvent (ev : event)                 (* core.process_event(ev) *)
| TResolve (seq : nat) (v : value)    (* core.resolve(&mut held[seq], v) *)
| TDrop (seq : nat)                   (* drop(held[seq]) *)
| TView.                              (* core.view() *)

Inductive tout : Type :=
| TEffects (l : list eff)
| TErr (e : Z)
| TViewOut (v : view)
| TUnit.

Definition hold (l : list eff) : list (option (rkind * handle)) :=
  map (fun e => Some (e_kind e, e_h e)) l.

(* Resolve::resolve (core/resolve.rs) on the request's callback, then Core::resolve's `?` and process() *)
Definition typed_step (t : tstate) (i : tinput) : tstate * tout :=
  match i with
  | TEvent ev =>
      let (c, effs) := core_event (t_core t) ev in
      (mkT c (t_held t ++ hold effs), TEffects effs)
  | TResolve seq v =>
      match nth_error (t_held t) seq with
      | Some (Some (KNever, _)) => (t, TErr E_Never)
      | Some (Some (KOnce, h)) =>
          (* mem::replace(self, Resolve::Never); f(output) *)
          let held1 := upd (t_held t) seq (Some (KNever, h)) in
          let (c1, _) := core_call (t_core t) h v in
          let (c2, effs) := core_process c1 in
          (mkT c2 (held1 ++ hold effs), TEffects effs)
      | Some (Some (KMany, h)) =>
          let (c1, ok) := core_call (t_core t) h v in
          if ok then
            let (c2, effs) := core_process c1 in
            (mkT c2 (t_held t ++ hold effs), TEffects effs)
          else (mkT c1 (t_held t), TErr E_FinishedMany)
      | _ => (t, TErr E_NotHeld)
      end
  | TDrop seq =>
      match nth_error (t_held t) seq with
      | Some (Some (KNever, _)) => (mkT (t_core t) (upd (t_held t) seq None), TUnit)
      | Some (Some (_, h)) => (mkT (core_drop (t_core t) h) (upd (t_held t) seq None), TUnit)
      | _ => (t, TUnit)
      end
  | TView => (t, TViewOut (core_view (t_core t)))
  end.

(* ------------------------------------------------------------------ bridge side *)
(* One registry entry = one ResolveSerialized (its current variant, the captured typed callback, the
   captured output deserializer = a function of the operation's type) + the ghost arrival number. *)
Record rentry : Type := mkR { r_kind : rkind; r_h : handle; r_op : op; r_seq : nat }.

Record bstate : Type := mkB { b_core : cstate; b_reg : slab rentry; b_seq : nat; b_log : list gev }.

Definition bridge_init (c : cstate) : bstate := mkB c slab_empty 0 [].
Definition typed_init (c : cstate) : tstate := mkT c [].

Definition U32_LIMIT : N := 4294967296%N.

(* ResolveRegistry::register: effect.serialize(); slab.insert(resolve); id.try_into().expect(..) *)
Definition register (reg : slab rentry) (seq : nat) (e : eff) : res (slab rentry * nat) :=
  match slab_insert reg (mkR (e_kind e) (e_h e) (e_op e) seq) with
  | Ok (id, reg') => if N.ltb (N.of_nat id) U32_LIMIT then Ok (reg', id) else Panic
  | Err x => Err x
  | Panic => Panic
  | OutOfFuel => OutOfFuel
  end.

(* effects.into_iter().map(|eff| self.registry.register(eff)).collect() *)
Fixpoint register_all (reg : slab rentry) (seq : nat) (log : list gev) (effs : list eff)
  : res (slab rentry * nat * list gev * list (nat * op)) :=
  match effs with
  | [] => Ok (reg, seq, log, [])
  | e :: rest =>
      match register reg seq e with
      | Ok (reg', id) =>
          match register_all reg' (S seq) (log ++ [Issue seq id]) rest with
          | Ok (reg'', seq'', log'', reqs) => Ok (reg'', seq'', log'', (id, e_op e) :: reqs)
          | Err x => Err x | Panic => Panic | OutOfFuel => OutOfFuel
          end
      | Err x => Err x | Panic => Panic | OutOfFuel => OutOfFuel
      end
  end.

(* the tail of BridgeWithSerializer::process: register every effect, serialize the requests *)
Definition finish (b : bstate) (c : cstate) (effs : list eff) : bstate * res bytes :=
  match register_all (b_reg b) (b_seq b) (b_log b) effs with
  | Ok (reg, seq, log, reqs) => (mkB c reg seq log, Ok (enc_reqs reqs))
  | Err x => (b, Err x)
  | Panic => (b, Panic)
  | OutOfFuel => (b, OutOfFuel)
  end.

(* mem::replace(self, ResolveSerialized::Never) through the &mut obtained from get_mut *)
Definition set_never (b : bstate) (id : nat) (e : rentry) : bstate :=
  mkB (b_core b) (slab_set (b_reg b) id (mkR KNever (r_h e) (r_op e) (r_seq e))) (b_seq b) (b_log b).

(* `if let ResolveSerialized::Never = entry { registry_lock.remove(id) }`; remove = try_remove.expect *)
Definition forget (b : bstate) (c : cstate) (id seq : nat) (r : res unit) : bstate * res unit :=
  match slab_remove (b_reg b) id with
  | Ok (_, reg) => (mkB c reg (b_seq b) (b_log b ++ [Forget seq id]), r)
  | _ => (b, Panic)
  end.

(* ResolveRegistry::resume (with ResolveSerialized::resolve and the closures built by Resolve::deserializing) *)
Definition resume (b : bstate) (id : nat) (body : bytes) : bstate * res unit :=
  match slab_get (b_reg b) id with
  | None => (b, Err E_Never)                      (* no entry under this id (fix 117dd88; was a panic) *)
  | Some e =>
      match r_kind e with
      | KNever => forget b (b_core b) id (r_seq e) (Err E_Never)
      | KOnce =>
          (* the entry becomes Never before the closure runs; afterwards it is removed in every case *)
          let b1 := set_never b id e in
          match dec_out (r_op e) body with
          | None => forget b1 (core_drop (b_core b) (r_h e)) id (r_seq e) (Err E_DeserializeOutput)
          | Some (v, _) => forget b1 (fst (core_call (b_core b) (r_h e) v)) id (r_seq e) (Ok tt)
          end
      | KMany =>
          match dec_out (r_op e) body with
          | None => (b, Err E_DeserializeOutput)
          | Some (v, _) =>
              let (c, ok) := core_call (b_core b) (r_h e) v in
              (mkB c (b_reg b) (b_seq b) (b_log b), if ok then Ok tt else Err E_FinishedMany)
          end
      end
  end.

Inductive binput : Type :=
| BEvent (data : bytes)               (* process_event(data) *)
| BResp (id : nat) (data : bytes)     (* handle_response(id, data) *)
| BView.                              (* view() *)

Definition bridge_step (b : bstate) (i : binput) : bstate * res bytes :=
  match i with
  | BEvent data =>
      match dec_event data with
      | None => (b, Err E_DeserializeEvent)
      | Some (ev, _) => let (c, effs) := core_event (b_core b) ev in finish b c effs
      end
  | BResp id data =>
      match resume b id data with
      | (b1, Ok _) => let (c, effs) := core_process (b_core b1) in finish b1 c effs
      | (b1, Err x) => (b1, Err x)
      | (b1, Panic) => (b1, Panic)
      | (b1, OutOfFuel) => (b1, OutOfFuel)
      end
  | BView => (b, Ok (enc_view (core_view (b_core b))))
  end.

(* ------------------------------------------------------------------ the two runs side by side *)
(* What the typed shell does to mirror one bridge call, and the error the bridge call must return
   when it does not reach the core's effects. *)
Definition translate (b : bstate) (i : binput) : option tinput * option Z :=
  match i with
  | BEvent data =>
      match dec_event data with
      | None => (None, Some E_DeserializeEvent)
      | Some (ev, _) => (Some (TEvent ev), None)
      end
  | BResp id data =>
      match slab_get (b_reg b) id with
      | None => (None, Some E_Never)
      | Some e =>
          match r_kind e with
          | KNever => (Some (TDrop (r_seq e)), Some E_Never)
          | KOnce =>
              match dec_out (r_op e) data with
              | None => (Some (TDrop (r_seq e)), Some E_DeserializeOutput)
              | Some (v, _) => (Some (TResolve (r_seq e) v), None)
              end
          | KMany =>
              match dec_out (r_op e) data with
              | None => (None, Some E_DeserializeOutput)
              | Some (v, _) => (Some (TResolve (r_seq e) v), None)
              end
          end
      end
  | BView => (Some TView, None)
  end.

Definition typed_opt_step (t : tstate) (i : option tinput) : tstate * tout :=
  match i with Some x => typed_step t x | None => (t, TUnit) end.

Record call : Type := mkCall { c_in : binput; c_out : res bytes; c_err : option Z; c_typed : tout;
                               c_before : bstate; c_after : bstate }.

Fixpoint twin_run (b : bstate) (t : tstate) (is : list binput) : list call :=
  match is with
  | [] => []
  | i :: rest =>
      let (ti, err) := translate b i in
      let (b', r) := bridge_step b i in
      let (t', tr) := typed_opt_step t ti in
      mkCall i r err tr b b' :: twin_run b' t' rest
  end.

Fixpoint bridge_run (b : bstate) (is : list binput) : list (res bytes) * bstate :=
  match is with
  | [] => ([], b)
  | i :: rest => let (b', r) := bridge_step b i in
                 let (rs, bf) := bridge_run b' rest in (r :: rs, bf)
  end.

Definition is_panic {A} (r : res A) : bool := match r with Panic | OutOfFuel => true | _ => false end.

End Bridge.

Arguments mkEff {op handle}.
Arguments e_op {op handle}.
Arguments e_kind {op handle}.
Arguments e_h {op handle}.
Arguments mkR {op handle}.
Arguments r_kind {op handle}.
Arguments r_h {op handle}.
Arguments r_op {op handle}.
Arguments r_seq {op handle}.
Arguments mkB {cstate op handle}.
Arguments b_core {cstate op handle}.
Arguments b_reg {cstate op handle}.
Arguments b_seq {cstate op handle}.
Arguments b_log {cstate op handle}.
Arguments mkT {cstate handle}.
Arguments t_core {cstate handle}.
Arguments t_held {cstate handle}.
Arguments TEffects {op view handle}.
Arguments TErr {op view handle}.
Arguments TViewOut {op view handle}.
Arguments TUnit {op view handle}.
Arguments TEvent {event value}.
Arguments TResolve {event value}.
Arguments TDrop {event value}.
Arguments TView {event value}.
Arguments BEvent {B}.
Arguments BResp {B}.
Arguments BView {B}.
Arguments register {op handle}.
Arguments register_all {op handle}.
Arguments is_panic {A}.
