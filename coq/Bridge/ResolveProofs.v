(* Invariants of the request layer (privacy of a request's channel, accepted = delivered ++ buffered,
   one-shot channels carry at most one value) and the arity / routing lemmas C02 states. *)
From Coq Require Import List Arith Bool ZArith NArith Lia.
From Crux Require Import Base.Res Bridge.Slab Bridge.SlabProofs Bridge.Bridge Bridge.Resolve.
Import ListNotations.

(* ------------------------------------------------------------------ list helpers *)
Lemma upd_same_val {A} (l : list A) k x : nth_error l k = Some x -> upd l k x = l.
Proof.
  revert k; induction l as [|h t IH]; intros [|k] H; simpl in *; try discriminate; auto.
  - inversion H; reflexivity.
  - f_equal. auto.
Qed.

Lemma nth_error_upd (A : Type) (l : list A) k j x :
  nth_error (upd l k x) j = if Nat.eqb j k then (if Nat.ltb k (length l) then Some x else None) else nth_error l j.
Proof.
  destruct (Nat.eqb_spec j k) as [->|Hne].
  - destruct (Nat.ltb_spec k (length l)) as [Hlt|Hge].
    + apply nth_error_upd_same; auto.
    + apply nth_error_None. rewrite upd_length. lia.
  - apply nth_error_upd_other; auto.
Qed.

Lemma take_n_split n l : fst (take_n n l) ++ snd (take_n n l) = l /\ length (fst (take_n n l)) <= n.
Proof.
  revert l; induction n as [|n IH]; intros [|x r]; simpl; try (split; [reflexivity|lia]).
  specialize (IH r). destruct (take_n n r) as [a b]. simpl in *. destruct IH as [E L]. split; [congruence|lia].
Qed.

(* ------------------------------------------------------------------ invariants *)
Definition chan_ok (c : chan) : Prop :=
  (exists rest, ch_acc c = ch_del c ++ rest /\ (ch_rx c = true -> rest = ch_buf c)) /\
  ch_taken c = length (ch_del c) /\
  (ch_stream c = false -> (ch_tx c = true -> ch_acc c = []) /\ length (ch_acc c) <= 1).

Definition is_many (r : resolve) : bool := match r with RMany _ => true | _ => false end.

Definition Inv (h : heap) : Prop :=
  (* every closure points to a live sender of a channel owned by the issuing task *)
  (forall rid q c, nth_error (h_reqs h) rid = Some q -> closure_of (q_res q) = Some c ->
     exists ch, nth_error (h_chans h) c = Some ch /\ ch_tx ch = true /\ ch_owner ch = q_owner q /\
                ch_stream ch = is_many (q_res q)) /\
  (* privacy: the sender of a channel occurs in the closure of one request only *)
  (forall r1 r2 q1 q2 c, nth_error (h_reqs h) r1 = Some q1 -> nth_error (h_reqs h) r2 = Some q2 ->
     closure_of (q_res q1) = Some c -> closure_of (q_res q2) = Some c -> r1 = r2) /\
  (forall c ch, nth_error (h_chans h) c = Some ch -> chan_ok ch).

Lemma Inv_empty : Inv heap_empty.
Proof.
  split; [|split].
  - intros [|rid] q c H; discriminate.
  - intros [|r1] r2 q1 q2 c H; discriminate.
  - intros [|c] ch H; discriminate.
Qed.

(* ------------------------------------------------------------------ channel operations *)
Lemma chan_send_spec chs cid v :
  (forall j, j <> cid -> nth_error (fst (chan_send chs cid v)) j = nth_error chs j) /\
  length (fst (chan_send chs cid v)) = length chs /\
  match nth_error chs cid with
  | Some c =>
      if ch_rx c then
        snd (chan_send chs cid v) = true /\
        nth_error (fst (chan_send chs cid v)) cid =
          Some (mkChan (ch_buf c ++ [v]) true (ch_tx c) (ch_stream c) (ch_limit c) (ch_taken c) (ch_owner c) (ch_acc c ++ [v]) (ch_del c) (ch_legacy c))
      else chan_send chs cid v = (chs, false)
  | None => chan_send chs cid v = (chs, false)
  end.
Proof.
  unfold chan_send. destruct (nth_error chs cid) as [c|] eqn:E; [|auto].
  destruct (ch_rx c); simpl; [|auto].
  split; [intros j Hj; apply nth_error_upd_other; auto|]. split; [apply upd_length|].
  split; [reflexivity|]. apply nth_error_upd_same. eapply nth_error_lt; eauto.
Qed.

Lemma chan_close_tx_spec chs cid :
  (forall j, j <> cid -> nth_error (chan_close_tx chs cid) j = nth_error chs j) /\
  length (chan_close_tx chs cid) = length chs /\
  nth_error (chan_close_tx chs cid) cid =
    option_map (fun c => mkChan (ch_buf c) (ch_rx c) false (ch_stream c) (ch_limit c) (ch_taken c) (ch_owner c) (ch_acc c) (ch_del c) (ch_legacy c))
               (nth_error chs cid).
Proof.
  unfold chan_close_tx. destruct (nth_error chs cid) as [c|] eqn:E; simpl.
  - split; [intros j Hj; apply nth_error_upd_other; auto|]. split; [apply upd_length|].
    apply nth_error_upd_same. eapply nth_error_lt; eauto.
  - rewrite E. auto.
Qed.

Definition sent (c : chan) (v : N) : chan :=
  mkChan (ch_buf c ++ [v]) true (ch_tx c) (ch_stream c) (ch_limit c) (ch_taken c) (ch_owner c) (ch_acc c ++ [v]) (ch_del c) (ch_legacy c).
Definition closed (c : chan) : chan :=
  mkChan (ch_buf c) (ch_rx c) false (ch_stream c) (ch_limit c) (ch_taken c) (ch_owner c) (ch_acc c) (ch_del c) (ch_legacy c).

Lemma chan_ok_send_stream c v : chan_ok c -> ch_rx c = true -> ch_stream c = true -> chan_ok (sent c v).
Proof.
  intros ((rest & Hacc & Hrx) & Htk & Honce) Halive Hs. split; [|split]; simpl.
  - exists (ch_buf c ++ [v]). split; [|auto]. rewrite Hacc, (Hrx Halive), app_assoc. reflexivity.
  - exact Htk.
  - congruence.
Qed.

Lemma chan_ok_closed c : chan_ok c -> chan_ok (closed c).
Proof.
  intros (Hacc & Htk & Honce). split; [|split]; simpl; auto.
  intros Hs. destruct (Honce Hs) as [_ H2]. split; [discriminate|exact H2].
Qed.

Lemma chan_ok_send_close_once c v : chan_ok c -> ch_rx c = true -> ch_stream c = false -> ch_tx c = true ->
  chan_ok (closed (sent c v)).
Proof.
  intros ((rest & Hacc & Hrx) & Htk & Honce) Halive Hs Htx. split; [|split]; simpl.
  - exists (ch_buf c ++ [v]). split; [|auto]. rewrite Hacc, (Hrx Halive), app_assoc. reflexivity.
  - exact Htk.
  - intros _. split; [discriminate|]. destruct (Honce Hs) as [H1 _]. rewrite (H1 Htx). simpl. lia.
Qed.

Lemma chan_ok_kill c : chan_ok c -> chan_ok (kill c).
Proof.
  intros ((rest & Hacc & Hrx) & Htk & Honce). split; [|split]; simpl; auto.
  exists rest. split; [exact Hacc|discriminate].
Qed.

Lemma consume_spec c : chan_ok c ->
  let c' := fst (consume c) in
  chan_ok c' /\ ch_tx c' = ch_tx c /\ ch_owner c' = ch_owner c /\ ch_stream c' = ch_stream c /\
  ch_acc c' = ch_acc c /\ (ch_rx c' = true -> ch_rx c = true) /\
  (* what the consumer received in this run are the next values of its own channel, in order *)
  exists got, ch_del c' = ch_del c ++ got /\
              (ch_rx c = true -> exists rest, ch_buf c = got ++ rest) /\
              (ch_rx c = false -> got = []) /\
              forall o v, In (o, v) (snd (consume c)) -> o = ch_owner c /\ (In v got \/ v = ENDED).
Proof.
  intros ((rest & Hacc & Hrx) & Htk & Honce). unfold consume. cbv zeta.
  destruct (ch_rx c) eqn:Halive; simpl.
  2:{ split.
      { split; [exists rest; split; [exact Hacc|intros ?; congruence]|split; [exact Htk|exact Honce]]. }
      split; [reflexivity|]. split; [reflexivity|]. split; [reflexivity|]. split; [reflexivity|].
      split; [intros ?; congruence|]. exists []. rewrite app_nil_r.
      split; [reflexivity|]. split; [intros ?; congruence|]. split; [reflexivity|]. intros o v Hin. destruct Hin. }
  set (room := match ch_limit c with Some l => l - ch_taken c | None => length (ch_buf c) end).
  pose proof (take_n_split room (ch_buf c)) as [Hsplit Hlen].
  destruct (take_n room (ch_buf c)) as [got rst]. simpl in Hsplit, Hlen.
  assert (Hacc' : ch_acc c = (ch_del c ++ got) ++ rst).
  { rewrite Hacc, (Hrx eq_refl), <- Hsplit, app_assoc. reflexivity. }
  assert (Htk' : ch_taken c + length got = length (ch_del c ++ got)) by (rewrite app_length; lia).
  assert (Hev : forall o v tail, In (o, v) (map (fun v => (ch_owner c, v)) got ++ tail) ->
                  (forall p, In p tail -> p = (ch_owner c, ENDED)) -> o = ch_owner c /\ (In v got \/ v = ENDED)).
  { intros o v tail Hin Htail. apply in_app_or in Hin as [Hin|Hin].
    - apply in_map_iff in Hin as (x & Hx & Hin). inversion Hx; subst. auto.
    - apply Htail in Hin. inversion Hin; subst. auto. }
  assert (Hbuf : exists rest0, ch_buf c = got ++ rest0) by (exists rst; auto).
  destruct (match ch_limit c with Some l => Nat.leb l (ch_taken c + length got) | None => false end).
  - simpl. split.
    { split; [exists rst; split; [exact Hacc'|intros ?; discriminate]|split; [exact Htk'|exact Honce]]. }
    split; [reflexivity|]. split; [reflexivity|]. split; [reflexivity|]. split; [reflexivity|].
    split; [intros ?; discriminate|]. exists got.
    split; [reflexivity|]. split; [intros _; exact Hbuf|]. split; [intros ?; discriminate|].
    intros o v Hin. eapply Hev; [exact Hin|]. intros p Hp.
    destruct (ch_stream c); simpl in Hp; [destruct Hp as [<-|[]]; reflexivity|contradiction].
  - destruct (negb (ch_tx c) && negb (ch_legacy c) && match rst with [] => true | _ => false end) eqn:Eend; simpl.
    + apply andb_true_iff in Eend as [Eend _]. apply andb_true_iff in Eend as [Etx _]. apply negb_true_iff in Etx.
      split.
      { split; [exists rst; split; [exact Hacc'|intros ?; discriminate]|split; [exact Htk'|]].
        simpl. intros Hs. destruct (Honce Hs) as [_ H2]. split; [intros ?; discriminate|exact H2]. }
      split; [simpl; congruence|]. split; [reflexivity|]. split; [reflexivity|]. split; [reflexivity|].
      split; [intros ?; discriminate|]. exists got.
      split; [reflexivity|]. split; [intros _; exact Hbuf|]. split; [intros ?; discriminate|].
      intros o v Hin. eapply Hev; [exact Hin|]. intros p Hp.
      destruct (ch_stream c); simpl in Hp; [destruct Hp as [<-|[]]; reflexivity|contradiction].
    + split.
      { split; [exists rst; split; [exact Hacc'|reflexivity]|split; [exact Htk'|exact Honce]]. }
      split; [reflexivity|]. split; [reflexivity|]. split; [reflexivity|]. split; [reflexivity|].
      split; [reflexivity|]. exists got.
      split; [reflexivity|]. split; [intros _; exact Hbuf|]. split; [intros ?; discriminate|].
      intros o v Hin. eapply (Hev o v []); [rewrite app_nil_r; exact Hin|intros p []].
Qed.

(* ------------------------------------------------------------------ polling all channels *)
Lemma poll_chans_nth : forall chs k,
  nth_error (fst (poll_chans chs)) k = option_map (fun c => fst (consume c)) (nth_error chs k).
Proof.
  induction chs as [|c rest IH]; intros k; simpl.
  - destruct k; reflexivity.
  - destruct (consume c) as [c' ev] eqn:Ec. destruct (poll_chans rest) as [rest' evs] eqn:Ep. simpl.
    destruct k; simpl; [rewrite Ec; reflexivity|]. exact (IH k).
Qed.

Lemma poll_chans_events : forall chs o v,
  In (o, v) (snd (poll_chans chs)) -> exists k c, nth_error chs k = Some c /\ In (o, v) (snd (consume c)).
Proof.
  induction chs as [|c rest IH]; intros o v Hin; simpl in Hin; [contradiction|].
  destruct (consume c) as [c' ev] eqn:Ec. destruct (poll_chans rest) as [rest' evs] eqn:Ep. simpl in Hin.
  apply in_app_or in Hin as [Hin|Hin].
  - exists 0, c. rewrite Ec. auto.
  - destruct (IH o v) as (k & c0 & Hk & Hc0); [exact Hin|]. exists (S k), c0. auto.
Qed.

Lemma nth_error_map_kill chs k : nth_error (map kill chs) k = option_map kill (nth_error chs k).
Proof. apply nth_error_map. Qed.

(* a pointwise transformation of the channels that keeps senders, owners, stream flags and chan_ok *)
Lemma Inv_map_chans (h : heap) (chs' : list chan) (f : chan -> chan) ab :
  Inv h ->
  (forall k, nth_error chs' k = option_map f (nth_error (h_chans h) k)) ->
  (forall c, chan_ok c -> chan_ok (f c) /\ ch_tx (f c) = ch_tx c /\ ch_owner (f c) = ch_owner c /\ ch_stream (f c) = ch_stream c) ->
  Inv (mkHeap (h_reqs h) chs' ab).
Proof.
  intros (H1 & H2 & H3) Hn Hf. split; [|split]; simpl.
  - intros rid q c Hq Hc. destruct (H1 rid q c Hq Hc) as (ch & Hch & Htx & Ho & Hs).
    exists (f ch). rewrite Hn, Hch. simpl. destruct (Hf ch (H3 _ _ Hch)) as (_ & E1 & E2 & E3).
    repeat split; congruence.
  - exact H2.
  - intros c ch Hch. rewrite Hn in Hch. destruct (nth_error (h_chans h) c) as [ch0|] eqn:E; [|discriminate].
    simpl in Hch. inversion Hch; subst. apply Hf. eapply H3; eauto.
Qed.

(* ------------------------------------------------------------------ requests *)
Lemma set_req_nth (h : heap) rid r j :
  nth_error (set_req h rid r) j =
  if Nat.eqb j rid then option_map (fun q => mkCell r (q_owner q) (q_kind q)) (nth_error (h_reqs h) rid)
  else nth_error (h_reqs h) j.
Proof.
  unfold set_req. destruct (nth_error (h_reqs h) rid) as [q|] eqn:E.
  - rewrite nth_error_upd. destruct (Nat.eqb_spec j rid) as [->|]; auto.
    apply nth_error_lt in E. apply Nat.ltb_lt in E. rewrite E. reflexivity.
  - destruct (Nat.eqb_spec j rid) as [->|]; auto.
Qed.

(* replacing the callback of request [rid] by one without closure (Never), with its channel closed or left alone *)
Lemma Inv_retire (h : heap) rid q chs' :
  Inv h -> nth_error (h_reqs h) rid = Some q ->
  (forall c ch', nth_error chs' c = Some ch' -> chan_ok ch') ->
  (forall c, closure_of (q_res q) <> Some c -> nth_error chs' c = nth_error (h_chans h) c) ->
  Inv (mkHeap (set_req h rid RNever) chs' (h_aborted h)).
Proof.
  intros (H1 & H2 & H3) Hq Hok Hframe. split; [|split]; simpl.
  - intros r' q' c Hq' Hc. rewrite set_req_nth in Hq'. destruct (Nat.eqb_spec r' rid) as [->|Hne].
    + rewrite Hq in Hq'. simpl in Hq'. inversion Hq'; subst. discriminate.
    + destruct (H1 r' q' c Hq' Hc) as (ch & Hch & Hrest). exists ch. split; [|exact Hrest].
      rewrite Hframe; auto. intros Hcq. apply Hne. eapply H2; eauto.
  - intros r1 r2 q1 q2 c Hq1 Hq2 Hc1 Hc2. rewrite set_req_nth in Hq1, Hq2.
    destruct (Nat.eqb_spec r1 rid) as [->|Hn1].
    { rewrite Hq in Hq1. simpl in Hq1. inversion Hq1; subst. discriminate. }
    destruct (Nat.eqb_spec r2 rid) as [->|Hn2].
    { rewrite Hq in Hq2. simpl in Hq2. inversion Hq2; subst. discriminate. }
    eapply H2; eauto.
  - exact Hok.
Qed.

(* ------------------------------------------------------------------ one callback invocation *)
(* what resolve_step does to the channels: only the request's own channel can change *)
Lemma resolve_step_frame r chs v : forall c, closure_of r <> Some c ->
  nth_error (snd (fst (resolve_step r chs v))) c = nth_error chs c.
Proof.
  intros c Hc. destruct r as [|cid|cid]; simpl; auto.
  - destruct (chan_send chs cid v) as [chs1 ok] eqn:E. simpl.
    destruct (chan_close_tx_spec chs1 cid) as (Hf & _). rewrite Hf by (intros ->; apply Hc; reflexivity).
    destruct (chan_send_spec chs cid v) as (Hf' & _). rewrite E in Hf'. simpl in Hf'. apply Hf'. intros ->; apply Hc; reflexivity.
  - destruct (chan_send chs cid v) as [chs1 ok] eqn:E. simpl.
    destruct (chan_send_spec chs cid v) as (Hf' & _). rewrite E in Hf'. simpl in Hf'. apply Hf'. intros ->; apply Hc; reflexivity.
Qed.

Lemma sresolve_step_frame s chs body : forall c,
  (match s with SNever => None | SOnce x => Some x | SMany x => Some x end) <> Some c ->
  nth_error (snd (fst (sresolve_step s chs body))) c = nth_error chs c.
Proof.
  intros c Hc. destruct s as [|cid|cid]; simpl; auto; destruct body as [v|]; simpl; auto.
  - destruct (chan_send chs cid v) as [chs1 ok] eqn:E. simpl.
    destruct (chan_close_tx_spec chs1 cid) as (Hf & _). rewrite Hf by (intros ->; apply Hc; reflexivity).
    destruct (chan_send_spec chs cid v) as (Hf' & _). rewrite E in Hf'. simpl in Hf'. apply Hf'. intros ->; apply Hc; reflexivity.
  - destruct (chan_close_tx_spec chs cid) as (Hf & _). apply Hf. intros ->; apply Hc; reflexivity.
  - destruct (chan_send chs cid v) as [chs1 ok] eqn:E. simpl.
    destruct (chan_send_spec chs cid v) as (Hf' & _). rewrite E in Hf'. simpl in Hf'. apply Hf'. intros ->; apply Hc; reflexivity.
Qed.

(* C02_serialized_mirrors: the serialized callback is the typed callback composed with decoding *)
Lemma serialized_mirrors r chs v :
  sresolve_step (deserializing r) chs (Some v) =
  let '(r', chs', res) := resolve_step r chs v in (deserializing r', chs', res).
Proof.
  destruct r as [|c|c]; simpl; auto.
  - destruct (chan_send chs c v); reflexivity.
  - destruct (chan_send chs c v); reflexivity.
Qed.

Lemma serialized_undecodable r chs :
  sresolve_step (deserializing r) chs None =
  match r with
  | RNever => (SNever, chs, Err E_Never)
  | ROnce c => (SNever, chan_close_tx chs c, Err E_DeserializeOutput)
  | RMany c => (SMany c, chs, Err E_DeserializeOutput)
  end.
Proof. destruct r; reflexivity. Qed.

(* ------------------------------------------------------------------ the invariant is kept by every action *)
Lemma heap_eta h : mkHeap (h_reqs h) (h_chans h) (h_aborted h) = h.
Proof. destruct h; reflexivity. Qed.

Lemma set_req_same (h : heap) rid q : nth_error (h_reqs h) rid = Some q -> set_req h rid (q_res q) = h_reqs h.
Proof. intros Hq. unfold set_req. rewrite Hq. apply upd_same_val. rewrite Hq. destruct q; reflexivity. Qed.

(* the request's own channel receives a value (stream) *)
Lemma Inv_stream_send (h : heap) rid q c ch v :
  Inv h -> nth_error (h_reqs h) rid = Some q -> q_res q = RMany c -> nth_error (h_chans h) c = Some ch ->
  ch_rx ch = true -> Inv (mkHeap (h_reqs h) (upd (h_chans h) c (sent ch v)) (h_aborted h)).
Proof.
  intros HI Hq Hr Hch Hrx. pose proof HI as (H1 & H2 & H3).
  destruct (H1 rid q c Hq) as (ch0 & Hch0 & Htx & Ho & Hs); [rewrite Hr; reflexivity|].
  rewrite Hch in Hch0. inversion Hch0; subst ch0. rewrite Hr in Hs. simpl in Hs.
  split; [|split]; simpl.
  - intros r' q' c' Hq' Hc'. destruct (H1 r' q' c' Hq' Hc') as (ch1 & Hch1 & Hrest).
    rewrite nth_error_upd. destruct (Nat.eqb_spec c' c) as [->|Hne].
    + pose proof (nth_error_lt _ _ _ Hch) as Hlt. apply Nat.ltb_lt in Hlt. rewrite Hlt.
      rewrite Hch in Hch1. inversion Hch1; subst ch1. exists (sent ch v). split; [reflexivity|exact Hrest].
    + exists ch1. auto.
  - exact H2.
  - intros c' ch' Hc'. rewrite nth_error_upd in Hc'. destruct (Nat.eqb_spec c' c) as [->|Hne].
    + destruct (Nat.ltb c (length (h_chans h))); inversion Hc'; subst. apply chan_ok_send_stream; eauto.
    + eapply H3; eauto.
Qed.

Lemma chan_send_upd chs c ch v : nth_error chs c = Some ch -> ch_rx ch = true ->
  chan_send chs c v = (upd chs c (sent ch v), true).
Proof. intros Hch Hrx. unfold chan_send. rewrite Hch, Hrx. reflexivity. Qed.

Lemma chan_send_dead chs c ch v : nth_error chs c = Some ch -> ch_rx ch = false -> chan_send chs c v = (chs, false).
Proof. intros Hch Hrx. unfold chan_send. rewrite Hch, Hrx. reflexivity. Qed.

Lemma chan_close_upd chs c ch : nth_error chs c = Some ch -> chan_close_tx chs c = upd chs c (closed ch).
Proof. intros Hch. unfold chan_close_tx. rewrite Hch. reflexivity. Qed.

(* a one-shot callback runs (with or without a value reaching the channel) and is gone *)
Lemma Inv_once_done (h : heap) rid q c ch chs' :
  Inv h -> nth_error (h_reqs h) rid = Some q -> q_res q = ROnce c -> nth_error (h_chans h) c = Some ch ->
  (exists ch', chan_ok ch' /\ chs' = upd (h_chans h) c ch') ->
  Inv (mkHeap (set_req h rid RNever) chs' (h_aborted h)).
Proof.
  intros HI Hq Hr Hch (ch' & Hok & ->). pose proof HI as (H1 & H2 & H3).
  eapply Inv_retire; eauto.
  - intros c0 ch0 Hc0. rewrite nth_error_upd in Hc0. destruct (Nat.eqb_spec c0 c) as [->|Hne].
    + destruct (Nat.ltb c (length (h_chans h))); inversion Hc0; subst; auto.
    + eapply H3; eauto.
  - intros c0 Hc0. rewrite Hr in Hc0. simpl in Hc0. apply nth_error_upd_other. congruence.
Qed.

Theorem step_Inv (h : heap) (a : action) : Inv h -> Inv (fst (step h a)).
Proof.
  intros HI. pose proof HI as (H1 & H2 & H3).
  assert (Hres : forall rid q, nth_error (h_reqs h) rid = Some q ->
            forall v, Inv (mkHeap (set_req h rid (fst (fst (resolve_step (q_res q) (h_chans h) v))))
                                  (snd (fst (resolve_step (q_res q) (h_chans h) v))) (h_aborted h))).
  { intros rid q Hq v. destruct (q_res q) as [|c|c] eqn:Hr; simpl.
    - eapply Inv_retire; eauto.
    - destruct (H1 rid q c Hq) as (ch & Hch & Htx & Ho & Hs); [rewrite Hr; reflexivity|].
      rewrite Hr in Hs. simpl in Hs.
      destruct (ch_rx ch) eqn:Hrx.
      + rewrite (chan_send_upd _ _ _ v Hch Hrx). simpl.
        rewrite (chan_close_upd _ c (sent ch v)) by (apply nth_error_upd_same; eapply nth_error_lt; eauto).
        eapply Inv_once_done; eauto. exists (closed (sent ch v)). split.
        * apply chan_ok_send_close_once; eauto.
        * clear. revert c. generalize (h_chans h). induction l as [|x t IH]; intros [|c]; simpl; auto. f_equal. apply IH.
      + rewrite (chan_send_dead _ _ _ v Hch Hrx). simpl. rewrite (chan_close_upd _ _ _ Hch).
        eapply Inv_once_done; eauto. exists (closed ch). split; [apply chan_ok_closed; eauto|reflexivity].
    - destruct (H1 rid q c Hq) as (ch & Hch & Htx & Ho & Hs); [rewrite Hr; reflexivity|].
      assert (Hsame : set_req h rid (RMany c) = h_reqs h) by (rewrite <- Hr; apply set_req_same; auto).
      destruct (ch_rx ch) eqn:Hrx.
      + rewrite (chan_send_upd _ _ _ v Hch Hrx). simpl. rewrite Hsame. eapply Inv_stream_send; eauto.
      + rewrite (chan_send_dead _ _ _ v Hch Hrx). simpl. rewrite Hsame, heap_eta. exact HI. }
  destruct a as [owner k limit legacy|rid v|rid body|rid| | |]; simpl.
  - (* issue *)
    assert (Hold : forall c ch, nth_error (h_chans h) c = Some ch -> forall x, nth_error (h_chans h ++ [x]) c = Some ch).
    { intros c ch Hc x. rewrite nth_error_app1; auto. eapply nth_error_lt; eauto. }
    assert (Hnew_ok : forall s l, chan_ok (new_chan owner s l legacy)).
    { intros s l. split; [exists []; simpl; auto|split; simpl; auto]. }
    destruct k; simpl.
    + split; [|split]; simpl.
      * intros rid q c Hq Hc. destruct (Nat.lt_ge_cases rid (length (h_reqs h))) as [Hlt|Hge].
        -- rewrite nth_error_app1 in Hq by auto. eauto.
        -- rewrite nth_error_app2 in Hq by auto. destruct (rid - length (h_reqs h)) as [|d]; simpl in Hq;
             [inversion Hq; subst; discriminate|destruct d; discriminate].
      * intros r1 r2 q1 q2 c Hq1 Hq2 Hc1 Hc2.
        assert (Hin : forall r q, nth_error (h_reqs h ++ [mkCell RNever owner KNever]) r = Some q -> closure_of (q_res q) = Some c ->
                        nth_error (h_reqs h) r = Some q).
        { intros r q Hq Hc. destruct (Nat.lt_ge_cases r (length (h_reqs h))) as [Hlt|Hge].
          - rewrite nth_error_app1 in Hq by auto. exact Hq.
          - rewrite nth_error_app2 in Hq by auto. destruct (r - length (h_reqs h)) as [|d]; simpl in Hq;
              [inversion Hq; subst; discriminate|destruct d; discriminate]. }
        eapply H2; eauto.
      * exact H3.
    + (* one-shot: fresh channel *)
      set (cid := length (h_chans h)). set (rid := length (h_reqs h)).
      assert (Hsplit : forall r q, nth_error (h_reqs h ++ [mkCell (ROnce cid) owner KOnce]) r = Some q ->
                 (nth_error (h_reqs h) r = Some q /\ r < rid) \/ (r = rid /\ q = mkCell (ROnce cid) owner KOnce)).
      { intros r q Hq. destruct (Nat.lt_ge_cases r rid) as [Hlt|Hge].
        - rewrite nth_error_app1 in Hq by auto. auto.
        - rewrite nth_error_app2 in Hq by auto. destruct (r - length (h_reqs h)) as [|d] eqn:Ed; simpl in Hq;
            [inversion Hq; subst; right; split; [unfold rid; lia|reflexivity]|destruct d; discriminate]. }
      split; [|split]; simpl.
      * intros r q c Hq Hc. destruct (Hsplit r q Hq) as [[Hq' _]|[-> ->]].
        -- destruct (H1 r q c Hq' Hc) as (ch & Hch & Hrest). exists ch. split; [apply Hold; auto|exact Hrest].
        -- simpl in Hc. inversion Hc; subst c. exists (new_chan owner false (Some 1) legacy).
           split; [rewrite nth_error_app2 by (unfold cid; lia); unfold cid; rewrite Nat.sub_diag; reflexivity|simpl; auto].
      * intros r1 r2 q1 q2 c Hq1 Hq2 Hc1 Hc2.
        destruct (Hsplit r1 q1 Hq1) as [[Hq1' _]|[-> ->]]; destruct (Hsplit r2 q2 Hq2) as [[Hq2' _]|[-> ->]]; auto.
        -- eapply H2; eauto.
        -- simpl in Hc2. inversion Hc2; subst c. destruct (H1 r1 q1 cid Hq1' Hc1) as (ch & Hch & _).
           apply nth_error_lt in Hch. unfold cid in Hch. lia.
        -- simpl in Hc1. inversion Hc1; subst c. destruct (H1 r2 q2 cid Hq2' Hc2) as (ch & Hch & _).
           apply nth_error_lt in Hch. unfold cid in Hch. lia.
      * intros c ch Hc. destruct (Nat.lt_ge_cases c cid) as [Hlt|Hge].
        -- rewrite nth_error_app1 in Hc by auto. eauto.
        -- rewrite nth_error_app2 in Hc by auto. destruct (c - length (h_chans h)) as [|d]; simpl in Hc;
             [inversion Hc; subst; apply Hnew_ok|destruct d; discriminate].
    + (* stream: fresh channel *)
      set (cid := length (h_chans h)). set (rid := length (h_reqs h)).
      assert (Hsplit : forall r q, nth_error (h_reqs h ++ [mkCell (RMany cid) owner KMany]) r = Some q ->
                 (nth_error (h_reqs h) r = Some q /\ r < rid) \/ (r = rid /\ q = mkCell (RMany cid) owner KMany)).
      { intros r q Hq. destruct (Nat.lt_ge_cases r rid) as [Hlt|Hge].
        - rewrite nth_error_app1 in Hq by auto. auto.
        - rewrite nth_error_app2 in Hq by auto. destruct (r - length (h_reqs h)) as [|d] eqn:Ed; simpl in Hq;
            [inversion Hq; subst; right; split; [unfold rid; lia|reflexivity]|destruct d; discriminate]. }
      split; [|split]; simpl.
      * intros r q c Hq Hc. destruct (Hsplit r q Hq) as [[Hq' _]|[-> ->]].
        -- destruct (H1 r q c Hq' Hc) as (ch & Hch & Hrest). exists ch. split; [apply Hold; auto|exact Hrest].
        -- simpl in Hc. inversion Hc; subst c. exists (new_chan owner true limit legacy).
           split; [rewrite nth_error_app2 by (unfold cid; lia); unfold cid; rewrite Nat.sub_diag; reflexivity|simpl; auto].
      * intros r1 r2 q1 q2 c Hq1 Hq2 Hc1 Hc2.
        destruct (Hsplit r1 q1 Hq1) as [[Hq1' _]|[-> ->]]; destruct (Hsplit r2 q2 Hq2) as [[Hq2' _]|[-> ->]]; auto.
        -- eapply H2; eauto.
        -- simpl in Hc2. inversion Hc2; subst c. destruct (H1 r1 q1 cid Hq1' Hc1) as (ch & Hch & _).
           apply nth_error_lt in Hch. unfold cid in Hch. lia.
        -- simpl in Hc1. inversion Hc1; subst c. destruct (H1 r2 q2 cid Hq2' Hc2) as (ch & Hch & _).
           apply nth_error_lt in Hch. unfold cid in Hch. lia.
      * intros c ch Hc. destruct (Nat.lt_ge_cases c cid) as [Hlt|Hge].
        -- rewrite nth_error_app1 in Hc by auto. eauto.
        -- rewrite nth_error_app2 in Hc by auto. destruct (c - length (h_chans h)) as [|d]; simpl in Hc;
             [inversion Hc; subst; apply Hnew_ok|destruct d; discriminate].
  - (* typed resolve *)
    destruct (nth_error (h_reqs h) rid) as [q|] eqn:Hq; [|exact HI].
    specialize (Hres rid q Hq v). destruct (resolve_step (q_res q) (h_chans h) v) as [[r' chs'] res]. exact Hres.
  - (* serialized resolve *)
    destruct (nth_error (h_reqs h) rid) as [q|] eqn:Hq; [|exact HI].
    destruct body as [v|].
    + rewrite serialized_mirrors. specialize (Hres rid q Hq v).
      destruct (resolve_step (q_res q) (h_chans h) v) as [[r' chs'] res]. simpl in *.
      destruct r'; exact Hres.
    + rewrite serialized_undecodable. destruct (q_res q) as [|c|c] eqn:Hr; simpl.
      * eapply Inv_retire; eauto.
      * destruct (H1 rid q c Hq) as (ch & Hch & _); [rewrite Hr; reflexivity|].
        rewrite (chan_close_upd _ _ _ Hch). eapply Inv_once_done; eauto.
        exists (closed ch). split; [apply chan_ok_closed; eauto|reflexivity].
      * rewrite <- Hr, (set_req_same h rid q Hq), heap_eta. exact HI.
  - (* the shell drops the request *)
    destruct (nth_error (h_reqs h) rid) as [q|] eqn:Hq; [|exact HI]. simpl.
    destruct (closure_of (q_res q)) as [c|] eqn:Hc.
    + destruct (H1 rid q c Hq Hc) as (ch & Hch & _). rewrite (chan_close_upd _ _ _ Hch).
      eapply Inv_retire; eauto.
      * intros c0 ch0 Hc0. rewrite nth_error_upd in Hc0. destruct (Nat.eqb_spec c0 c) as [->|Hne].
        -- destruct (Nat.ltb c (length (h_chans h))); inversion Hc0; subst. apply chan_ok_closed; eauto.
        -- eapply H3; eauto.
      * intros c0 Hc0. apply nth_error_upd_other. congruence.
    + eapply Inv_retire; eauto.
  - (* poll *)
    destruct (h_aborted h).
    + simpl. eapply (Inv_map_chans h _ kill); eauto.
      * intros k. apply nth_error_map.
      * intros c Hc. split; [apply chan_ok_kill; auto|auto].
    + destruct (poll_chans (h_chans h)) as [chs' evs] eqn:Ep. simpl.
      eapply (Inv_map_chans h _ (fun c => fst (consume c))); eauto.
      * intros k. pose proof (poll_chans_nth (h_chans h) k) as Hn. rewrite Ep in Hn. exact Hn.
      * intros c Hc. destruct (consume_spec c Hc) as (A & B & C & D & _). auto.
  - exact HI.
  - eapply (Inv_map_chans h _ kill); eauto.
    + intros k. apply nth_error_map.
    + intros c Hc. split; [apply chan_ok_kill; auto|auto].
Qed.

Theorem run_Inv : forall acts h, Inv h -> Inv (fst (run h acts)).
Proof.
  induction acts as [|a rest IH]; intros h HI; simpl; auto.
  pose proof (step_Inv h a HI) as H1. destruct (step h a) as [h1 o]. simpl in H1.
  specialize (IH h1 H1). destruct (run h1 rest) as [h2 os]. exact IH.
Qed.

(* ------------------------------------------------------------------ the arity automaton *)
(* a notification's request (or a used one-shot): rejected, nothing changes *)
Theorem resolve_never (h : heap) rid q v :
  nth_error (h_reqs h) rid = Some q -> q_res q = RNever ->
  step h (AResolve rid v) = (h, mkOut (Err E_Never) [] None).
Proof.
  intros Hq Hr. simpl. rewrite Hq, Hr. simpl. rewrite <- Hr, (set_req_same h rid q Hq), heap_eta. reflexivity.
Qed.

(* being Never is for ever: no action gives a request its callback back *)
Lemma never_stable_step (h : heap) a rid q :
  nth_error (h_reqs h) rid = Some q -> q_res q = RNever ->
  exists q', nth_error (h_reqs (fst (step h a))) rid = Some q' /\ q_res q' = RNever.
Proof.
  intros Hq Hr.
  assert (Hset : forall rid' r', (rid' = rid -> r' = RNever) ->
            exists q', nth_error (set_req h rid' r') rid = Some q' /\ q_res q' = RNever).
  { intros rid' r' Hsame. rewrite set_req_nth. destruct (Nat.eqb_spec rid rid') as [<-|Hne].
    - rewrite Hq. simpl. eexists; split; [reflexivity|]. simpl. auto.
    - eauto. }
  assert (Happ : forall x, exists q', nth_error (h_reqs h ++ [x]) rid = Some q' /\ q_res q' = RNever).
  { intros x. exists q. split; [|exact Hr]. rewrite nth_error_app1; auto. eapply nth_error_lt; eauto. }
  destruct a as [owner k limit legacy|rid' v|rid' body|rid'| | |]; simpl.
  - destruct k; simpl; apply Happ.
  - destruct (nth_error (h_reqs h) rid') as [q0|] eqn:Hq0; [|eauto].
    destruct (resolve_step (q_res q0) (h_chans h) v) as [[r' chs'] res] eqn:E. simpl. apply Hset.
    intros ->. rewrite Hq in Hq0. inversion Hq0; subst q0. rewrite Hr in E. simpl in E. congruence.
  - destruct (nth_error (h_reqs h) rid') as [q0|] eqn:Hq0; [|eauto].
    destruct (sresolve_step (deserializing (q_res q0)) (h_chans h) body) as [[s' chs'] res] eqn:E. simpl. apply Hset.
    intros ->. rewrite Hq in Hq0. inversion Hq0; subst q0. rewrite Hr in E. simpl in E. inversion E; reflexivity.
  - destruct (nth_error (h_reqs h) rid') as [q0|] eqn:Hq0; [|eauto]. simpl. apply Hset. auto.
  - destruct (h_aborted h); [simpl; eauto|]. destruct (poll_chans (h_chans h)); simpl; eauto.
  - eauto.
  - eauto.
Qed.

Theorem never_stable : forall acts h rid q,
  nth_error (h_reqs h) rid = Some q -> q_res q = RNever ->
  exists q', nth_error (h_reqs (fst (run h acts))) rid = Some q' /\ q_res q' = RNever.
Proof.
  induction acts as [|a rest IH]; intros h rid q Hq Hr; simpl; [eauto|].
  destruct (never_stable_step h a rid q Hq Hr) as (q1 & Hq1 & Hr1).
  destruct (step h a) as [h1 o]. simpl in Hq1.
  destruct (IH h1 rid q1 Hq1 Hr1) as (q2 & Hq2 & Hr2).
  destruct (run h1 rest) as [h2 os]. simpl in *. eauto.
Qed.

(* a one-shot request: the first resolution is accepted; the value goes to the request's own channel
   (if its consumer is still there) and nowhere else; the callback is gone *)
Theorem resolve_once (h : heap) rid q c v :
  Inv h -> nth_error (h_reqs h) rid = Some q -> q_res q = ROnce c ->
  exists ch, nth_error (h_chans h) c = Some ch /\ ch_owner ch = q_owner q /\ ch_stream ch = false /\
    let h' := fst (step h (AResolve rid v)) in
    snd (step h (AResolve rid v)) = mkOut (Ok tt) [] None /\
    nth_error (h_reqs h') rid = Some (mkCell RNever (q_owner q) (q_kind q)) /\
    (forall r', r' <> rid -> nth_error (h_reqs h') r' = nth_error (h_reqs h) r') /\
    nth_error (h_chans h') c = Some (if ch_rx ch then closed (sent ch v) else closed ch) /\
    (forall c', c' <> c -> nth_error (h_chans h') c' = nth_error (h_chans h) c').
Proof.
  intros (H1 & H2 & H3) Hq Hr.
  destruct (H1 rid q c Hq) as (ch & Hch & Htx & Ho & Hs); [rewrite Hr; reflexivity|].
  rewrite Hr in Hs. simpl in Hs. exists ch. split; [exact Hch|]. split; [exact Ho|]. split; [exact Hs|].
  simpl. rewrite Hq, Hr. simpl.
  pose proof (nth_error_lt _ _ _ Hch) as Hlt.
  destruct (ch_rx ch) eqn:Hrx.
  - rewrite (chan_send_upd _ _ _ v Hch Hrx). simpl.
    rewrite (chan_close_upd _ c (sent ch v)) by (apply nth_error_upd_same; auto).
    split; [reflexivity|]. split; [rewrite set_req_nth, Nat.eqb_refl, Hq; reflexivity|].
    split; [intros r' Hr'; rewrite set_req_nth; destruct (Nat.eqb_spec r' rid); [contradiction|reflexivity]|].
    split; [apply nth_error_upd_same; rewrite upd_length; auto|].
    intros c' Hc'. rewrite !nth_error_upd_other; auto.
  - rewrite (chan_send_dead _ _ _ v Hch Hrx). simpl. rewrite (chan_close_upd _ _ _ Hch).
    split; [reflexivity|]. split; [rewrite set_req_nth, Nat.eqb_refl, Hq; reflexivity|].
    split; [intros r' Hr'; rewrite set_req_nth; destruct (Nat.eqb_spec r' rid); [contradiction|reflexivity]|].
    split; [apply nth_error_upd_same; auto|].
    intros c' Hc'. rewrite nth_error_upd_other; auto.
Qed.

(* ... and after it, whatever else happens, every further resolution of it is rejected and changes nothing *)
Theorem resolve_once_then_rejected (h : heap) rid q c v acts v' :
  Inv h -> nth_error (h_reqs h) rid = Some q -> q_res q = ROnce c ->
  let h1 := fst (run (fst (step h (AResolve rid v))) acts) in
  step h1 (AResolve rid v') = (h1, mkOut (Err E_Never) [] None).
Proof.
  intros HI Hq Hr h1.
  destruct (resolve_once h rid q c v HI Hq Hr) as (ch & _ & _ & _ & _ & Hq' & _).
  destruct (never_stable acts _ rid _ Hq' eq_refl) as (q2 & Hq2 & Hr2).
  eapply resolve_never; eauto.
Qed.

(* a stream request: accepted and appended to its own channel while the consumer is alive; rejected,
   with nothing changed, once the consumer is gone *)
Theorem resolve_many (h : heap) rid q c v :
  Inv h -> nth_error (h_reqs h) rid = Some q -> q_res q = RMany c ->
  exists ch, nth_error (h_chans h) c = Some ch /\ ch_owner ch = q_owner q /\ ch_stream ch = true /\
    if ch_rx ch then
      step h (AResolve rid v) = (mkHeap (h_reqs h) (upd (h_chans h) c (sent ch v)) (h_aborted h), mkOut (Ok tt) [] None)
    else step h (AResolve rid v) = (h, mkOut (Err E_FinishedMany) [] None).
Proof.
  intros (H1 & H2 & H3) Hq Hr.
  destruct (H1 rid q c Hq) as (ch & Hch & Htx & Ho & Hs); [rewrite Hr; reflexivity|].
  rewrite Hr in Hs. simpl in Hs. exists ch. split; [exact Hch|]. split; [exact Ho|]. split; [exact Hs|].
  assert (Hsame : set_req h rid (RMany c) = h_reqs h) by (rewrite <- Hr; apply set_req_same; auto).
  simpl. rewrite Hq, Hr. simpl. destruct (ch_rx ch) eqn:Hrx.
  - rewrite (chan_send_upd _ _ _ v Hch Hrx). simpl. rewrite Hsame. reflexivity.
  - rewrite (chan_send_dead _ _ _ v Hch Hrx). simpl. rewrite Hsame, heap_eta. reflexivity.
Qed.

(* a consumer that is gone stays gone, and nothing is delivered to it any more *)
Lemma rx_dead_stable_step (h : heap) a c ch :
  nth_error (h_chans h) c = Some ch -> ch_rx ch = false ->
  exists ch', nth_error (h_chans (fst (step h a))) c = Some ch' /\ ch_rx ch' = false /\ ch_del ch' = ch_del ch /\
              ch_acc ch' = ch_acc ch.
Proof.
  intros Hch Hrx.
  assert (Hsend : forall cid v, exists ch', nth_error (fst (chan_send (h_chans h) cid v)) c = Some ch' /\ ch_rx ch' = false /\
                                            ch_del ch' = ch_del ch /\ ch_acc ch' = ch_acc ch).
  { intros cid v. destruct (Nat.eq_dec cid c) as [->|Hne].
    - rewrite (chan_send_dead _ _ _ v Hch Hrx). simpl. eauto.
    - destruct (chan_send_spec (h_chans h) cid v) as (Hf & _). rewrite Hf by auto. eauto. }
  assert (Hclose : forall chs cid ch0, nth_error chs c = Some ch0 -> ch_rx ch0 = false ->
             exists ch', nth_error (chan_close_tx chs cid) c = Some ch' /\ ch_rx ch' = false /\ ch_del ch' = ch_del ch0 /\
                         ch_acc ch' = ch_acc ch0).
  { intros chs cid ch0 H0 Hr0. destruct (chan_close_tx_spec chs cid) as (Hf & _ & Hat).
    destruct (Nat.eq_dec cid c) as [->|Hne].
    - rewrite Hat, H0. simpl. eexists; split; [reflexivity|]. simpl. auto.
    - rewrite Hf by auto. eauto. }
  assert (Hres : forall r v, exists ch', nth_error (snd (fst (resolve_step r (h_chans h) v))) c = Some ch' /\ ch_rx ch' = false /\
                                         ch_del ch' = ch_del ch /\ ch_acc ch' = ch_acc ch).
  { intros r v. destruct r as [|cid|cid]; simpl; [eauto| |].
    - destruct (Hsend cid v) as (ch1 & Hc1 & Hr1 & Hd1 & Ha1).
      destruct (chan_send (h_chans h) cid v) as [chs1 ok]. simpl in *.
      destruct (Hclose chs1 cid ch1 Hc1 Hr1) as (ch2 & Hc2 & Hr2 & Hd2 & Ha2). exists ch2. repeat split; congruence.
    - destruct (Hsend cid v) as (ch1 & Hc1 & Hr1 & Hd1 & Ha1).
      destruct (chan_send (h_chans h) cid v) as [chs1 ok]. simpl in *. eauto. }
  destruct a as [owner k limit legacy|rid v|rid body|rid| | |]; simpl.
  - assert (Happ : forall x, nth_error (h_chans h ++ [x]) c = Some ch)
      by (intros x; rewrite nth_error_app1; auto; eapply nth_error_lt; eauto).
    destruct k; simpl; eauto.
  - destruct (nth_error (h_reqs h) rid) as [q|]; [|eauto].
    specialize (Hres (q_res q) v). destruct (resolve_step (q_res q) (h_chans h) v) as [[r' chs'] res]. exact Hres.
  - destruct (nth_error (h_reqs h) rid) as [q|]; [|eauto]. destruct body as [v|].
    + rewrite serialized_mirrors. specialize (Hres (q_res q) v).
      destruct (resolve_step (q_res q) (h_chans h) v) as [[r' chs'] res]. exact Hres.
    + rewrite serialized_undecodable. destruct (q_res q) as [|cid|cid]; simpl; eauto.
  - destruct (nth_error (h_reqs h) rid) as [q|]; [|eauto]. simpl.
    destruct (closure_of (q_res q)); simpl; eauto.
  - destruct (h_aborted h); simpl.
    + rewrite nth_error_map, Hch. simpl. eexists; split; [reflexivity|]. simpl. auto.
    + pose proof (poll_chans_nth (h_chans h) c) as Hn. destruct (poll_chans (h_chans h)) as [chs' evs]. simpl in *.
      rewrite Hn, Hch. simpl. eexists; split; [reflexivity|].
      unfold consume. rewrite Hrx. simpl. auto.
  - eauto.
  - rewrite nth_error_map, Hch. simpl. eexists; split; [reflexivity|]. simpl. auto.
Qed.

Theorem rx_dead_stable : forall acts h c ch,
  nth_error (h_chans h) c = Some ch -> ch_rx ch = false ->
  exists ch', nth_error (h_chans (fst (run h acts))) c = Some ch' /\ ch_rx ch' = false /\ ch_del ch' = ch_del ch /\
              ch_acc ch' = ch_acc ch.
Proof.
  induction acts as [|a rest IH]; intros h c ch Hch Hrx; simpl; [eauto|].
  destruct (rx_dead_stable_step h a c ch Hch Hrx) as (ch1 & Hc1 & Hr1 & Hd1 & Ha1).
  destruct (step h a) as [h1 o]. simpl in Hc1.
  destruct (IH h1 c ch1 Hc1 Hr1) as (ch2 & Hc2 & Hr2 & Hd2 & Ha2).
  destruct (run h1 rest) as [h2 os]. simpl in *. exists ch2. repeat split; congruence.
Qed.

Lemma many_stable : forall acts h rid q c,
  nth_error (h_reqs h) rid = Some q -> q_res q = RMany c ->
  (forall a, In a acts -> a <> ADropReq rid) ->
  exists q1, nth_error (h_reqs (fst (run h acts))) rid = Some q1 /\ q_res q1 = RMany c.
Proof.
  intros acts h rid q c. revert h q.
  induction acts as [|a rest IH]; intros h q Hq Hr Hkeep; simpl; [eauto|].
  assert (Hstep : exists q', nth_error (h_reqs (fst (step h a))) rid = Some q' /\ q_res q' = RMany c).
  { assert (Hset : forall rid' r', (rid' = rid -> r' = RMany c) ->
              exists q', nth_error (set_req h rid' r') rid = Some q' /\ q_res q' = RMany c).
    { intros rid' r' Hsame. rewrite set_req_nth. destruct (Nat.eqb_spec rid rid') as [<-|Hne].
      - rewrite Hq. simpl. eexists; split; [reflexivity|]. simpl. auto.
      - eauto. }
    assert (Happ : forall x, exists q', nth_error (h_reqs h ++ [x]) rid = Some q' /\ q_res q' = RMany c).
    { intros x. exists q. split; [|exact Hr]. rewrite nth_error_app1; auto. eapply nth_error_lt; eauto. }
    destruct a as [owner k limit legacy|rid' v0|rid' body|rid'| | |]; simpl.
    - destruct k; simpl; apply Happ.
    - destruct (nth_error (h_reqs h) rid') as [q0|] eqn:Hq0; [|eauto].
      destruct (resolve_step (q_res q0) (h_chans h) v0) as [[r' chs'] res] eqn:E. simpl. apply Hset.
      intros ->. rewrite Hq in Hq0. inversion Hq0; subst q0. rewrite Hr in E. simpl in E.
      destruct (chan_send (h_chans h) c v0). inversion E; reflexivity.
    - destruct (nth_error (h_reqs h) rid') as [q0|] eqn:Hq0; [|eauto].
      destruct (sresolve_step (deserializing (q_res q0)) (h_chans h) body) as [[s' chs'] res] eqn:E. simpl. apply Hset.
      intros ->. rewrite Hq in Hq0. inversion Hq0; subst q0. rewrite Hr in E. simpl in E.
      destruct body as [v0|]; [destruct (chan_send (h_chans h) c v0)|]; inversion E; reflexivity.
    - destruct (Nat.eq_dec rid' rid) as [->|Hne]; [exfalso; apply (Hkeep (ADropReq rid)); [left|]; reflexivity|].
      destruct (nth_error (h_reqs h) rid') as [q0|] eqn:Hq0; [|eauto]. simpl. apply Hset. intros; contradiction.
    - destruct (h_aborted h); [simpl; eauto|]. destruct (poll_chans (h_chans h)); simpl; eauto.
    - eauto.
    - eauto. }
  destruct Hstep as (q' & Hq' & Hr'). destruct (step h a) as [h1' o]. simpl in Hq'.
  destruct (IH h1' q' Hq' Hr') as (q2 & Hq2 & Hr2); [intros a0 Ha0; apply Hkeep; right; exact Ha0|].
  destruct (run h1' rest) as [h2 os]. simpl in *. eauto.
Qed.

(* after the consumer of a stream has gone: every resolution, at any later time, is rejected with
   FinishedMany, changes nothing and delivers nothing *)
Theorem resolve_many_finished (h : heap) rid q c ch acts v :
  Inv h -> nth_error (h_reqs h) rid = Some q -> q_res q = RMany c ->
  nth_error (h_chans h) c = Some ch -> ch_rx ch = false ->
  (forall a, In a acts -> a <> ADropReq rid) ->          (* the shell still holds the request *)
  let h1 := fst (run h acts) in
  step h1 (AResolve rid v) = (h1, mkOut (Err E_FinishedMany) [] None) /\
  exists ch', nth_error (h_chans h1) c = Some ch' /\ ch_del ch' = ch_del ch.
Proof.
  intros HI Hq Hr Hch Hrx Hkeep h1.
  destruct (rx_dead_stable acts h c ch Hch Hrx) as (ch' & Hc' & Hr' & Hd' & _).
  destruct (many_stable acts h rid q c Hq Hr Hkeep) as (q1 & Hq1 & Hr1). fold h1 in Hq1.
  pose proof (run_Inv acts h HI) as HI1. fold h1 in HI1.
  destruct (resolve_many h1 rid q1 c v HI1 Hq1 Hr1) as (ch1 & Hch1 & _ & _ & Hres).
  fold h1 in Hc'. rewrite Hc' in Hch1. inversion Hch1; subst ch1. rewrite Hr' in Hres.
  split; [exact Hres|eauto].
Qed.

(* ------------------------------------------------------------------ routing *)
(* values enter a channel only through the callback of the one request that owns its sender, and that
   request was issued by the task that holds the receiver *)
Theorem accepted_only_via_own_request (h : heap) a c ch ch' :
  Inv h -> nth_error (h_chans h) c = Some ch -> nth_error (h_chans (fst (step h a))) c = Some ch' ->
  ch_acc ch' <> ch_acc ch ->
  exists rid q v, (a = AResolve rid v \/ a = ASerResolve rid (Some v)) /\
                  nth_error (h_reqs h) rid = Some q /\ closure_of (q_res q) = Some c /\
                  q_owner q = ch_owner ch /\ ch_rx ch = true /\
                  ch_acc ch' = ch_acc ch ++ [v] /\ ch_buf ch' = ch_buf ch ++ [v].
Proof.
  intros HI Hch Hch' Hne. pose proof HI as (H1 & H2 & H3).
  assert (Hres : forall rid q v, nth_error (h_reqs h) rid = Some q ->
            nth_error (snd (fst (resolve_step (q_res q) (h_chans h) v))) c = Some ch' ->
            closure_of (q_res q) = Some c /\ q_owner q = ch_owner ch /\ ch_rx ch = true /\
            ch_acc ch' = ch_acc ch ++ [v] /\ ch_buf ch' = ch_buf ch ++ [v]).
  { intros rid q v Hq Hc'.
    destruct (closure_of (q_res q)) as [c0|] eqn:Hc0.
    2:{ rewrite resolve_step_frame in Hc' by congruence. congruence. }
    destruct (Nat.eq_dec c0 c) as [->|Hcne].
    2:{ rewrite resolve_step_frame in Hc' by congruence. congruence. }
    destruct (H1 rid q c Hq Hc0) as (ch0 & Hch0 & Htx & Ho & Hs). rewrite Hch in Hch0. inversion Hch0; subst ch0.
    pose proof (nth_error_lt _ _ _ Hch) as Hlt.
    destruct (q_res q) as [|cc|cc]; simpl in Hc0; inversion Hc0; subst cc; simpl in Hc'.
    - destruct (ch_rx ch) eqn:Hrx.
      + rewrite (chan_send_upd _ _ _ v Hch Hrx) in Hc'. simpl in Hc'.
        rewrite (chan_close_upd _ c (sent ch v)) in Hc' by (apply nth_error_upd_same; auto).
        rewrite nth_error_upd_same in Hc' by (rewrite upd_length; auto). inversion Hc'; subst ch'. simpl. auto 10.
      + rewrite (chan_send_dead _ _ _ v Hch Hrx) in Hc'. simpl in Hc'. rewrite (chan_close_upd _ _ _ Hch) in Hc'.
        rewrite nth_error_upd_same in Hc' by auto. inversion Hc'; subst ch'. simpl in Hne. congruence.
    - destruct (ch_rx ch) eqn:Hrx.
      + rewrite (chan_send_upd _ _ _ v Hch Hrx) in Hc'. simpl in Hc'.
        rewrite nth_error_upd_same in Hc' by auto. inversion Hc'; subst ch'. simpl. auto 10.
      + rewrite (chan_send_dead _ _ _ v Hch Hrx) in Hc'. simpl in Hc'. congruence. }
  destruct a as [owner k limit legacy|rid v|rid body|rid| | |]; simpl in Hch'.
  - exfalso. apply Hne. destruct k; simpl in Hch'; try congruence;
      (rewrite nth_error_app1 in Hch' by (eapply nth_error_lt; eauto); congruence).
  - destruct (nth_error (h_reqs h) rid) as [q|] eqn:Hq; [|simpl in Hch'; congruence].
    destruct (resolve_step (q_res q) (h_chans h) v) as [[r' chs'] res] eqn:E. simpl in Hch'.
    exists rid, q, v. split; [auto|]. split; [exact Hq|]. apply (Hres rid q v Hq). rewrite E. exact Hch'.
  - destruct (nth_error (h_reqs h) rid) as [q|] eqn:Hq; [|simpl in Hch'; congruence]. destruct body as [v|].
    + rewrite serialized_mirrors in Hch'.
      destruct (resolve_step (q_res q) (h_chans h) v) as [[r' chs'] res] eqn:E. simpl in Hch'.
      exists rid, q, v. split; [auto|]. split; [exact Hq|]. apply (Hres rid q v Hq). rewrite E. exact Hch'.
    + exfalso. apply Hne. rewrite serialized_undecodable in Hch'. destruct (q_res q) as [|cc|cc]; simpl in Hch'; try congruence.
      destruct (chan_close_tx_spec (h_chans h) cc) as (Hf & _ & Hat). destruct (Nat.eq_dec cc c) as [->|Hcne].
      * rewrite Hat, Hch in Hch'. simpl in Hch'. inversion Hch'; reflexivity.
      * rewrite Hf in Hch' by auto. congruence.
  - exfalso. apply Hne. destruct (nth_error (h_reqs h) rid) as [q|] eqn:Hq; [|simpl in Hch'; congruence]. simpl in Hch'.
    destruct (closure_of (q_res q)) as [cc|]; [|congruence].
    destruct (chan_close_tx_spec (h_chans h) cc) as (Hf & _ & Hat). destruct (Nat.eq_dec cc c) as [->|Hcne].
    + rewrite Hat, Hch in Hch'. simpl in Hch'. inversion Hch'; reflexivity.
    + rewrite Hf in Hch' by auto. congruence.
  - exfalso. apply Hne. destruct (h_aborted h); simpl in Hch'.
    + rewrite nth_error_map, Hch in Hch'. simpl in Hch'. inversion Hch'; reflexivity.
    + pose proof (poll_chans_nth (h_chans h) c) as Hn. destruct (poll_chans (h_chans h)) as [chs' evs]. simpl in *.
      rewrite Hn, Hch in Hch'. simpl in Hch'. inversion Hch'; subst.
      destruct (consume_spec ch (H3 _ _ Hch)) as (_ & _ & _ & _ & Hacc & _). exact Hacc.
  - simpl in Hch'. congruence.
  - exfalso. apply Hne. rewrite nth_error_map, Hch in Hch'. simpl in Hch'. inversion Hch'; reflexivity.
Qed.

(* continuation events come only from polls; each carries, to the owner of a channel, the next values of
   that channel in order (or the end-of-stream mark) *)
Theorem events_from_own_channel (h : heap) a o v :
  Inv h -> In (o, v) (o_events (snd (step h a))) ->
  a = APoll /\ exists c ch ch', nth_error (h_chans h) c = Some ch /\ nth_error (h_chans (fst (step h a))) c = Some ch' /\
     ch_owner ch = o /\ ch_rx ch = true /\ ch_acc ch' = ch_acc ch /\
     exists got rest, ch_del ch' = ch_del ch ++ got /\ ch_buf ch = got ++ rest /\ (In v got \/ v = ENDED).
Proof.
  intros (H1 & H2 & H3) Hin.
  destruct a as [owner k limit legacy|rid v0|rid body|rid| | |]; simpl in Hin.
  - destruct k; simpl in Hin; contradiction.
  - destruct (nth_error (h_reqs h) rid); [destruct (resolve_step _ _ _) as [[? ?] ?]|]; simpl in Hin; contradiction.
  - destruct (nth_error (h_reqs h) rid); [destruct (sresolve_step _ _ _) as [[? ?] ?]|]; simpl in Hin; contradiction.
  - destruct (nth_error (h_reqs h) rid); simpl in Hin; contradiction.
  - split; [reflexivity|]. simpl. destruct (h_aborted h); [simpl in Hin; contradiction|].
    pose proof (poll_chans_nth (h_chans h)) as Hn. pose proof (poll_chans_events (h_chans h) o v) as Hev.
    destruct (poll_chans (h_chans h)) as [chs' evs]. simpl in *.
    destruct (Hev Hin) as (c & ch & Hch & Hinc).
    destruct (consume_spec ch (H3 _ _ Hch)) as (_ & _ & _ & _ & Hacc & _ & got & Hdel & Hbuf & Hdead & Hevs).
    destruct (Hevs o v Hinc) as [-> Hv].
    destruct (ch_rx ch) eqn:Hrx.
    + destruct (Hbuf eq_refl) as (rest & Hrest).
      exists c, ch, (fst (consume ch)). rewrite Hn, Hch. simpl. repeat split; auto. exists got, rest. auto.
    + exfalso. unfold consume in Hinc. rewrite Hrx in Hinc. simpl in Hinc. exact Hinc.
  - contradiction.
  - contradiction.
Qed.
