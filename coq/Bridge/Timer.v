(* C13, legacy crux_time: the process-wide CLEARED_TIMER_IDS set (crux_time/src/lib.rs).
   Time::notify_after/notify_at: fresh id (global counter), a task awaiting a TimerFuture around the shell request.
   Time::clear(id): inserts id into the set (HashSet::insert), spawns a task that notifies the shell.
   TimerFuture::poll: removes its own id from the set (and then reports Cleared); the future is polled when its
   task is first run and when the shell resolves its request - never because of clear().
   Executable definitions only. *)
From Coq Require Import List Arith Bool NArith.
Import ListNotations.

Record timers : Type := mkTimers {
  tm_pending : list N;    (* timers whose task is still waiting for the shell *)
  tm_cleared : list N;    (* CLEARED_TIMER_IDS *)
  tm_next : N;              (* get_timer_id's counter *)
  tm_stale : list N }.    (* ghost: ids cleared while no task was waiting on them *)

Definition timers_init (first : N) : timers := mkTimers [] [] first [].

Inductive taction : Type :=
| TSet                     (* notify_after / notify_at, task polled once (request sent) *)
| TClear (id : N)        (* clear(id) *)
| TRespond (id : N).     (* the shell resolves the timer's request; its task is polled and finishes *)

Definition mem (x : N) (l : list N) : bool := existsb (N.eqb x) l.
Definition remove_id (x : N) (l : list N) : list N := filter (fun y => negb (N.eqb x y)) l.

Definition tstep (t : timers) (a : taction) : timers :=
  match a with
  | TSet => mkTimers (tm_pending t ++ [tm_next t]) (tm_cleared t) (N.succ (tm_next t)) (tm_stale t)
  | TClear id =>
      mkTimers (tm_pending t) (if mem id (tm_cleared t) then tm_cleared t else id :: tm_cleared t) (tm_next t)
               (if mem id (tm_pending t) || mem id (tm_stale t) then tm_stale t else id :: tm_stale t)
  | TRespond id =>
      if mem id (tm_pending t) then mkTimers (remove_id id (tm_pending t)) (remove_id id (tm_cleared t)) (tm_next t) (tm_stale t)
      else t
  end.

Definition trun (t : timers) (acts : list taction) : timers := fold_left tstep acts t.

(* per-step sizes of the cleared set, for comparison with the hook *)
Fixpoint cleared_sizes (t : timers) (acts : list taction) : list nat :=
  match acts with
  | [] => []
  | a :: rest => let t' := tstep t a in length (tm_cleared t') :: cleared_sizes t' rest
  end.
