(* The two models of ResolveSerialized::resolve - inside the bridge model (Bridge.resume, abstract core) and in
   the request-layer heap (Resolve.sresolve_step, concrete channels) - give the same answer in the same
   situation, where "the callback reports the consumer alive" (core_call's bool) is "the channel's receiver is
   alive" in the heap. *)
From Coq Require Import List Arith Bool ZArith NArith Lia.
From Crux Require Import Base.Res Bridge.Slab Bridge.SlabProofs Bridge.Bridge Bridge.BridgeProofs Bridge.RegistryProofs
                         Bridge.Resolve Bridge.ResolveProofs.
Import ListNotations.

Definition response_code (k : rkind) (decodable : bool) (consumer_alive : bool) : res unit :=
  match k with
  | KNever => Err E_Never
  | KOnce => if decodable then Ok tt else Err E_DeserializeOutput
  | KMany => if decodable then (if consumer_alive then Ok tt else Err E_FinishedMany) else Err E_DeserializeOutput
  end.

Definition closure_for (k : rkind) (c : nat) : resolve :=
  match k with KNever => RNever | KOnce => ROnce c | KMany => RMany c end.

Lemma heap_response_code k c chs ch (body : option N) :
  nth_error chs c = Some ch ->
  snd (sresolve_step (deserializing (closure_for k c)) chs body) =
  response_code k (match body with Some _ => true | None => false end) (ch_rx ch).
Proof.
  intros Hch. destruct k; simpl; auto; destruct body as [v|]; simpl; auto.
  - destruct (chan_send chs c v); reflexivity.
  - unfold chan_send. rewrite Hch. destruct (ch_rx ch); reflexivity.
Qed.

Section BridgeSide.
Variables (cstate op value handle B : Type).
Variable core_call : cstate -> handle -> value -> cstate * bool.
Variable core_drop : cstate -> handle -> cstate.
Variable dec_out : op -> list B -> option (value * list B).
Notation resume := (resume cstate op value handle B core_call core_drop dec_out).

Lemma bridge_response_code (b : bstate cstate op handle) id data e b' r :
  wf (b_reg b) -> slab_get (b_reg b) id = Some e -> resume b id data = (b', r) ->
  r = response_code (r_kind e)
        (match dec_out (r_op e) data with Some _ => true | None => false end)
        (match dec_out (r_op e) data with Some (v, _) => snd (core_call (b_core b) (r_h e) v) | None => true end).
Proof.
  intros Hwf Hg Hr. unfold Bridge.resume in Hr. rewrite Hg in Hr. destruct (r_kind e) eqn:Hk; simpl.
  - destruct (forget_spec0 _ _ _ b (b_core b) id e (Err E_Never) Hwf Hg) as (reg' & E & _).
    rewrite E in Hr. inversion Hr; reflexivity.
  - unfold set_never in Hr. destruct (dec_out (r_op e) data) as [[v rest]|].
    + destruct (forget_spec _ _ _ b (fst (core_call (b_core b) (r_h e) v)) id e
                  (mkR KNever (r_h e) (r_op e) (r_seq e)) (Ok tt) Hwf Hg) as (reg' & E & _).
      rewrite E in Hr. inversion Hr; reflexivity.
    + destruct (forget_spec _ _ _ b (core_drop (b_core b) (r_h e)) id e
                  (mkR KNever (r_h e) (r_op e) (r_seq e)) (Err E_DeserializeOutput) Hwf Hg) as (reg' & E & _).
      rewrite E in Hr. inversion Hr; reflexivity.
  - destruct (dec_out (r_op e) data) as [[v rest]|].
    + destruct (core_call (b_core b) (r_h e) v) as [c ok]. inversion Hr; subst. simpl. destruct ok; reflexivity.
    + inversion Hr; reflexivity.
Qed.
End BridgeSide.
