(* C13, task part, on the request-layer heap: when a consumer ends, is aborted or dropped, nothing of it is
   retained and nothing is delivered to it later; after the tasks have run, every remaining (non-legacy)
   live consumer waits on a request that can still be resolved. *)
From Coq Require Import List Arith Bool ZArith NArith Lia.
From Crux Require Import Base.Res Bridge.Slab Bridge.SlabProofs Bridge.Bridge Bridge.Resolve Bridge.ResolveProofs.
Import ListNotations.

Definition live_chans (h : heap) : list chan := filter ch_rx (h_chans h).
Definition live_tasks (h : heap) : nat := length (live_chans h).

(* ------------------------------------------------------------------ released = nothing retained *)
Lemma kill_released c : ch_rx (kill c) = false /\ ch_buf (kill c) = [].
Proof. split; reflexivity. Qed.

Theorem drop_all_releases (h : heap) : live_tasks (fst (step h ADropAll)) = 0 /\
  forall c ch, nth_error (h_chans (fst (step h ADropAll))) c = Some ch -> ch_rx ch = false /\ ch_buf ch = [].
Proof.
  simpl. split.
  - unfold live_tasks, live_chans. simpl. induction (h_chans h) as [|c t IH]; simpl; auto.
  - intros c ch Hc. rewrite nth_error_map in Hc. destruct (nth_error (h_chans h) c); inversion Hc; subst. apply kill_released.
Qed.

Theorem abort_then_poll_releases (h : heap) :
  let h' := fst (step (fst (step h AAbort)) APoll) in
  live_tasks h' = 0 /\ o_events (snd (step (fst (step h AAbort)) APoll)) = [] /\
  forall c ch, nth_error (h_chans h') c = Some ch -> ch_rx ch = false /\ ch_buf ch = [].
Proof.
  simpl. split; [|split; [reflexivity|]].
  - unfold live_tasks, live_chans. simpl. induction (h_chans h) as [|c t IH]; simpl; auto.
  - intros c ch Hc. rewrite nth_error_map in Hc. destruct (nth_error (h_chans h) c); inversion Hc; subst. apply kill_released.
Qed.

(* a consumer that has taken its last value is gone, together with whatever was still buffered for it *)
Theorem consumer_end_releases (c : chan) l : ch_rx c = true -> ch_limit c = Some l ->
  l <= ch_taken c + length (ch_buf c) ->
  ch_rx (fst (consume c)) = false /\ ch_buf (fst (consume c)) = [].
Proof.
  intros Hrx Hl Hle. unfold consume. rewrite Hrx, Hl. simpl.
  pose proof (take_n_split (l - ch_taken c) (ch_buf c)) as [Hs Hlen].
  destruct (take_n (l - ch_taken c) (ch_buf c)) as [got rest] eqn:E. simpl in *.
  assert (Hgot : length got = l - ch_taken c \/ rest = []).
  { clear - E. revert got rest E. generalize (ch_buf c) as buf. generalize (l - ch_taken c) as n.
    induction n as [|n IH]; intros [|x buf] got rest E; simpl in E; inversion E; subst; auto.
    destruct (take_n n buf) as [a b] eqn:E'. inversion H0; subst. destruct (IH _ _ _ E') as [H|H]; simpl; auto. }
  assert (Hfull : Nat.leb l (ch_taken c + length got) = true).
  { apply Nat.leb_le. destruct Hgot as [H|H]; [lia|]. subst rest. rewrite app_nil_r in Hs. subst got. lia. }
  rewrite Hfull. simpl. auto.
Qed.

(* once released, released for ever; later resolutions deliver nothing to it *)
Theorem released_stays_released : forall acts h c ch,
  nth_error (h_chans h) c = Some ch -> ch_rx ch = false ->
  exists ch', nth_error (h_chans (fst (run h acts))) c = Some ch' /\ ch_rx ch' = false /\
              ch_del ch' = ch_del ch /\ ch_acc ch' = ch_acc ch.
Proof. exact rx_dead_stable. Qed.

(* ------------------------------------------------------------------ a live sender belongs to a request *)
Definition TxInv (h : heap) : Prop :=
  forall c ch, nth_error (h_chans h) c = Some ch -> ch_tx ch = true ->
    exists rid q, nth_error (h_reqs h) rid = Some q /\ closure_of (q_res q) = Some c.

Lemma TxInv_empty : TxInv heap_empty.
Proof. intros [|c] ch H; discriminate. Qed.

(* generic step: senders are never revived, and a request loses its callback only together with its sender *)
Lemma TxInv_generic (h : heap) reqs' chs' ab :
  TxInv h ->
  (forall c ch', nth_error chs' c = Some ch' -> ch_tx ch' = true ->
     (exists ch, nth_error (h_chans h) c = Some ch /\ ch_tx ch = true) /\
     (forall rid q, nth_error (h_reqs h) rid = Some q -> closure_of (q_res q) = Some c ->
        exists q', nth_error reqs' rid = Some q' /\ closure_of (q_res q') = Some c)) ->
  TxInv (mkHeap reqs' chs' ab).
Proof.
  intros HT Hstep c ch' Hc' Htx'. simpl in *.
  destruct (Hstep c ch' Hc' Htx') as ((ch & Hc & Htx) & Hkeep).
  destruct (HT c ch Hc Htx) as (rid & q & Hq & Hcl).
  destruct (Hkeep rid q Hq Hcl) as (q' & Hq' & Hcl'). eauto.
Qed.

Lemma upd_tx chs c x c0 ch0 : nth_error (upd chs c x) c0 = Some ch0 -> ch_tx ch0 = true ->
  (c0 = c /\ ch0 = x) \/ (c0 <> c /\ nth_error chs c0 = Some ch0).
Proof.
  intros H _. rewrite nth_error_upd in H. destruct (Nat.eqb_spec c0 c) as [->|Hne]; [|auto].
  destruct (Nat.ltb c (length chs)); inversion H; auto.
Qed.

Theorem step_TxInv (h : heap) (a : action) : Inv h -> TxInv h -> TxInv (fst (step h a)).
Proof.
  intros HI HT. pose proof HI as (H1 & H2 & H3).
  (* typed callback invocation *)
  assert (Hres : forall rid q v, nth_error (h_reqs h) rid = Some q ->
            TxInv (mkHeap (set_req h rid (fst (fst (resolve_step (q_res q) (h_chans h) v))))
                          (snd (fst (resolve_step (q_res q) (h_chans h) v))) (h_aborted h))).
  { intros rid q v Hq. apply (TxInv_generic h); [exact HT|]. intros c ch' Hc' Htx'.
    destruct (q_res q) as [|c0|c0] eqn:Hr; simpl in Hc' |- *.
    - split; [eauto|]. intros r0 q0 Hq0 Hcl0. rewrite set_req_nth. destruct (Nat.eqb_spec r0 rid) as [->|Hne]; [|eauto].
      rewrite Hq in Hq0. inversion Hq0; subst q0. rewrite Hr in Hcl0. discriminate.
    - destruct (H1 rid q c0 Hq) as (ch0 & Hch0 & _); [rewrite Hr; reflexivity|].
      assert (Hcne : c <> c0).
      { intros ->. destruct (ch_rx ch0) eqn:Hrx.
        - rewrite (chan_send_upd _ _ _ v Hch0 Hrx) in Hc'. simpl in Hc'.
          rewrite (chan_close_upd _ c0 (sent ch0 v)) in Hc' by (apply nth_error_upd_same; eapply nth_error_lt; eauto).
          rewrite nth_error_upd_same in Hc' by (rewrite upd_length; eapply nth_error_lt; eauto).
          inversion Hc'; subst. discriminate.
        - rewrite (chan_send_dead _ _ _ v Hch0 Hrx) in Hc'. simpl in Hc'. rewrite (chan_close_upd _ _ _ Hch0) in Hc'.
          rewrite nth_error_upd_same in Hc' by (eapply nth_error_lt; eauto). inversion Hc'; subst. discriminate. }
      pose proof (resolve_step_frame (ROnce c0) (h_chans h) v c) as Hf. simpl in Hf. rewrite Hf in Hc' by congruence.
      split; [eauto|]. intros r0 q0 Hq0 Hcl0. rewrite set_req_nth. destruct (Nat.eqb_spec r0 rid) as [->|Hne]; [|eauto].
      rewrite Hq in Hq0. inversion Hq0; subst q0. rewrite Hr in Hcl0. simpl in Hcl0. congruence.
    - destruct (H1 rid q c0 Hq) as (ch0 & Hch0 & Htx0 & _); [rewrite Hr; reflexivity|].
      assert (Hold : exists ch, nth_error (h_chans h) c = Some ch /\ ch_tx ch = true).
      { destruct (ch_rx ch0) eqn:Hrx.
        - rewrite (chan_send_upd _ _ _ v Hch0 Hrx) in Hc'. simpl in Hc'.
          destruct (upd_tx _ _ _ _ _ Hc' Htx') as [[-> ->]|[_ Hsame]]; eauto.
        - rewrite (chan_send_dead _ _ _ v Hch0 Hrx) in Hc'. simpl in Hc'. eauto. }
      split; [exact Hold|]. intros r0 q0 Hq0 Hcl0.
      assert (Hsame : set_req h rid (fst (fst (let (chs1, ok) := chan_send (h_chans h) c0 v in
                        (RMany c0, chs1, if ok then Ok tt else Err E_FinishedMany)))) = h_reqs h).
      { destruct (chan_send (h_chans h) c0 v). simpl. rewrite <- Hr. apply set_req_same; auto. }
      rewrite Hsame. eauto. }
  destruct a as [owner k limit legacy|rid v|rid body|rid| | |]; simpl.
  - (* issue *)
    assert (Hold_req : forall x rid q, nth_error (h_reqs h) rid = Some q -> nth_error (h_reqs h ++ [x]) rid = Some q).
    { intros x rid q Hq. rewrite nth_error_app1; auto. eapply nth_error_lt; eauto. }
    destruct k; simpl.
    + apply (TxInv_generic h); [exact HT|]. intros c ch' Hc' Htx'. split; [eauto|]. eauto.
    + intros c ch' Hc' Htx'. simpl in *.
      destruct (Nat.lt_ge_cases c (length (h_chans h))) as [Hlt|Hge].
      * rewrite nth_error_app1 in Hc' by auto. destruct (HT c ch' Hc' Htx') as (rid & q & Hq & Hcl). eauto.
      * rewrite nth_error_app2 in Hc' by auto. destruct (c - length (h_chans h)) as [|d] eqn:Ed; simpl in Hc';
          [|destruct d; discriminate].
        exists (length (h_reqs h)), (mkCell (ROnce (length (h_chans h))) owner KOnce).
        split; [rewrite nth_error_app2, Nat.sub_diag by lia; reflexivity|]. simpl. f_equal. lia.
    + intros c ch' Hc' Htx'. simpl in *.
      destruct (Nat.lt_ge_cases c (length (h_chans h))) as [Hlt|Hge].
      * rewrite nth_error_app1 in Hc' by auto. destruct (HT c ch' Hc' Htx') as (rid & q & Hq & Hcl). eauto.
      * rewrite nth_error_app2 in Hc' by auto. destruct (c - length (h_chans h)) as [|d] eqn:Ed; simpl in Hc';
          [|destruct d; discriminate].
        exists (length (h_reqs h)), (mkCell (RMany (length (h_chans h))) owner KMany).
        split; [rewrite nth_error_app2, Nat.sub_diag by lia; reflexivity|]. simpl. f_equal. lia.
  - destruct (nth_error (h_reqs h) rid) as [q|] eqn:Hq; [|exact HT].
    specialize (Hres rid q v Hq). destruct (resolve_step (q_res q) (h_chans h) v) as [[r' chs'] res]. exact Hres.
  - destruct (nth_error (h_reqs h) rid) as [q|] eqn:Hq; [|exact HT]. destruct body as [v|].
    + rewrite serialized_mirrors. specialize (Hres rid q v Hq).
      destruct (resolve_step (q_res q) (h_chans h) v) as [[r' chs'] res]. simpl in *. destruct r'; exact Hres.
    + rewrite serialized_undecodable. destruct (q_res q) as [|c0|c0] eqn:Hr; simpl.
      * apply (TxInv_generic h); [exact HT|]. intros c ch' Hc' Htx'. split; [eauto|].
        intros r0 q0 Hq0 Hcl0. rewrite set_req_nth. destruct (Nat.eqb_spec r0 rid) as [->|Hne]; [|eauto].
        rewrite Hq in Hq0. inversion Hq0; subst q0. rewrite Hr in Hcl0. discriminate.
      * destruct (H1 rid q c0 Hq) as (ch0 & Hch0 & _); [rewrite Hr; reflexivity|].
        apply (TxInv_generic h); [exact HT|]. intros c ch' Hc' Htx'.
        rewrite (chan_close_upd _ _ _ Hch0) in Hc'.
        destruct (upd_tx _ _ _ _ _ Hc' Htx') as [[-> ->]|[Hcne Hsame]]; [discriminate|].
        split; [eauto|]. intros r0 q0 Hq0 Hcl0. rewrite set_req_nth. destruct (Nat.eqb_spec r0 rid) as [->|Hne]; [|eauto].
        rewrite Hq in Hq0. inversion Hq0; subst q0. rewrite Hr in Hcl0. simpl in Hcl0. congruence.
      * rewrite <- Hr, (set_req_same h rid q Hq), heap_eta. exact HT.
  - destruct (nth_error (h_reqs h) rid) as [q|] eqn:Hq; [|exact HT]. simpl.
    apply (TxInv_generic h); [exact HT|]. intros c ch' Hc' Htx'.
    destruct (closure_of (q_res q)) as [c0|] eqn:Hcl.
    + destruct (H1 rid q c0 Hq Hcl) as (ch0 & Hch0 & _). rewrite (chan_close_upd _ _ _ Hch0) in Hc'.
      destruct (upd_tx _ _ _ _ _ Hc' Htx') as [[-> ->]|[Hcne Hsame]]; [discriminate|].
      split; [eauto|]. intros r0 q0 Hq0 Hcl0. rewrite set_req_nth. destruct (Nat.eqb_spec r0 rid) as [->|Hne]; [|eauto].
      rewrite Hq in Hq0. inversion Hq0; subst q0. congruence.
    + split; [eauto|]. intros r0 q0 Hq0 Hcl0. rewrite set_req_nth. destruct (Nat.eqb_spec r0 rid) as [->|Hne]; [|eauto].
      rewrite Hq in Hq0. inversion Hq0; subst q0. congruence.
  - destruct (h_aborted h); simpl.
    + apply (TxInv_generic h); [exact HT|]. intros c ch' Hc' Htx'. rewrite nth_error_map in Hc'.
      destruct (nth_error (h_chans h) c) as [ch|] eqn:Hc; inversion Hc'; subst. simpl in Htx'. split; eauto.
    + pose proof (poll_chans_nth (h_chans h)) as Hn. destruct (poll_chans (h_chans h)) as [chs' evs]. simpl in *.
      apply (TxInv_generic h); [exact HT|]. intros c ch' Hc' Htx'. rewrite Hn in Hc'.
      destruct (nth_error (h_chans h) c) as [ch|] eqn:Hc; inversion Hc'; subst.
      destruct (consume_spec ch (H3 _ _ Hc)) as (_ & Htx & _). rewrite Htx in Htx'. split; eauto.
  - apply (TxInv_generic h); [exact HT|]. intros c ch' Hc' Htx'. split; eauto.
  - apply (TxInv_generic h); [exact HT|]. intros c ch' Hc' Htx'. rewrite nth_error_map in Hc'.
    destruct (nth_error (h_chans h) c) as [ch|] eqn:Hc; inversion Hc'; subst. simpl in Htx'. split; eauto.
Qed.

Theorem run_TxInv : forall acts h, Inv h -> TxInv h -> TxInv (fst (run h acts)).
Proof.
  induction acts as [|a rest IH]; intros h HI HT; simpl; auto.
  pose proof (step_Inv h a HI) as HI1. pose proof (step_TxInv h a HI HT) as HT1.
  destruct (step h a) as [h1 o]. simpl in *. specialize (IH h1 HI1 HT1). destruct (run h1 rest) as [h2 os]. exact IH.
Qed.

(* after the tasks have run, every consumer of the command API that is still alive waits, with an empty
   buffer, on a request whose callback still exists: live tasks are bounded by outstanding resolvable work *)
Theorem live_after_poll_has_outstanding_request (h : heap) c ch' :
  Inv h -> TxInv h -> h_aborted h = false ->
  nth_error (h_chans (fst (step h APoll))) c = Some ch' -> ch_rx ch' = true -> ch_legacy ch' = false ->
  ch_buf ch' = [] /\
  exists rid q, nth_error (h_reqs (fst (step h APoll))) rid = Some q /\ closure_of (q_res q) = Some c /\
                q_owner q = ch_owner ch'.
Proof.
  intros HI HT Hab Hc' Hrx' Hleg'. pose proof HI as (H1 & H2 & H3).
  pose proof (step_Inv h APoll HI) as HI'. pose proof (step_TxInv h APoll HI HT) as HT'.
  simpl in *. rewrite Hab in *.
  pose proof (poll_chans_nth (h_chans h) c) as Hn. destruct (poll_chans (h_chans h)) as [chs' evs]. simpl in *.
  rewrite Hn in Hc'. destruct (nth_error (h_chans h) c) as [ch|] eqn:Hc; inversion Hc'; subst ch'. clear Hc'.
  (* the shape of a consumer that survives its run *)
  assert (Hshape : ch_buf (fst (consume ch)) = [] /\ ch_tx (fst (consume ch)) = true).
  { unfold consume in *. destruct (ch_rx ch) eqn:Hrx; simpl in *; [|congruence].
    set (room := match ch_limit ch with Some l => l - ch_taken ch | None => length (ch_buf ch) end) in *.
    pose proof (take_n_split room (ch_buf ch)) as [Hs Hlen].
    destruct (take_n room (ch_buf ch)) as [got rest] eqn:E. simpl in *.
    destruct (match ch_limit ch with Some l => Nat.leb l (ch_taken ch + length got) | None => false end) eqn:Efull;
      simpl in *; [discriminate|].
    assert (Hrest : rest = []).
    { destruct (ch_limit ch) as [l|] eqn:El.
      - apply Nat.leb_gt in Efull. unfold room in *.
        assert (length got < l - ch_taken ch) by lia.
        clear - E H. revert got rest E H. generalize (ch_buf ch) as buf. generalize (l - ch_taken ch) as n.
        induction n as [|n IH]; intros [|x buf] got rest E H; simpl in E; inversion E; subst; auto; simpl in *; try lia.
        destruct (take_n n buf) as [a b] eqn:E'. inversion H1; subst. simpl in H. eapply IH; eauto. lia.
      - unfold room in *. clear - E. revert got rest E. generalize (ch_buf ch) as buf.
        induction buf as [|x buf IH]; intros got rest E; simpl in E; [inversion E; auto|].
        destruct (take_n (length buf) buf) as [a b] eqn:E'. inversion E; subst. eapply IH; eauto. }
    subst rest. simpl in *.
    destruct (negb (ch_tx ch) && negb (ch_legacy ch) && true) eqn:Eend; simpl in *; [discriminate|].
    split; [reflexivity|]. rewrite andb_true_r in Eend. apply andb_false_iff in Eend as [Ht|Hl].
    - apply negb_false_iff in Ht. exact Ht.
    - apply negb_false_iff in Hl. congruence. }
  destruct Hshape as [Hbuf Htx]. split; [exact Hbuf|].
  destruct (HT' c (fst (consume ch))) as (rid & q & Hq & Hcl); [simpl; rewrite Hn; reflexivity|exact Htx|].
  exists rid, q. split; [exact Hq|]. split; [exact Hcl|].
  destruct HI' as (H1' & _). simpl in H1'. destruct (H1' rid q c Hq Hcl) as (ch2 & Hch2 & _ & Ho & _).
  simpl in Hch2. rewrite Hn in Hch2. simpl in Hch2. inversion Hch2; subst. auto.
Qed.
