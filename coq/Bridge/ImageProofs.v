(* Run-level statements for C09: the whole bridge run is, call by call, the image of the typed run;
   decoded with any lawful codec; routing of a response to the request issued under its id. *)
From Coq Require Import List Arith Bool ZArith NArith Lia.
From Crux Require Import Base.Res Bridge.Slab Bridge.SlabProofs Bridge.Bridge Bridge.BridgeProofs Bridge.RegistryProofs.
Import ListNotations.

Lemma NoDup_nth_inj {X} (l : list X) :
  (forall i j x, nth_error l i = Some x -> nth_error l j = Some x -> i = j) -> NoDup l.
Proof.
  induction l as [|h t IH]; intros H; constructor.
  - intros Hin. apply In_nth_error in Hin as (n & Hn). specialize (H 0 (S n) h eq_refl Hn). discriminate.
  - apply IH. intros i j x Hi Hj. specialize (H (S i) (S j) x Hi Hj). lia.
Qed.

Section ImageProofs.
Variables (cstate event op value view handle B : Type).
Notation eff := (eff op handle).
Notation rentry := (rentry op handle).
Notation bstate := (bstate cstate op handle).
Notation tstate := (tstate cstate handle).
Notation bytes := (list B).
Notation call := (call cstate op view handle B).

Variable core_event : cstate -> event -> cstate * list eff.
Variable core_process : cstate -> cstate * list eff.
Variable core_call : cstate -> handle -> value -> cstate * bool.
Variable core_drop : cstate -> handle -> cstate.
Variable core_view : cstate -> view.
Variable dec_event : bytes -> option (event * bytes).
Variable dec_out : op -> bytes -> option (value * bytes).
Variable enc_reqs : list (nat * op) -> bytes.
Variable enc_view : view -> bytes.
(* the shell's decoders, with the codec law *)
Variable dec_reqs : bytes -> option (list (nat * op) * bytes).
Variable dec_view : bytes -> option (view * bytes).
Hypothesis reqs_law : forall l rest, dec_reqs (enc_reqs l ++ rest) = Some (l, rest).
Hypothesis view_law : forall v rest, dec_view (enc_view v ++ rest) = Some (v, rest).

Notation typed_opt_step := (typed_opt_step cstate event op value view handle core_event core_process core_call core_drop core_view).
Notation bridge_step := (bridge_step cstate event op value view handle B core_event core_process core_call core_drop core_view dec_event dec_out enc_reqs enc_view).
Notation translate := (translate cstate event op value handle B dec_event dec_out).
Notation twin_run := (twin_run cstate event op value view handle B core_event core_process core_call core_drop core_view dec_event dec_out enc_reqs enc_view).
Notation image := (image cstate op view handle B enc_reqs enc_view).
Notation R := (R cstate op handle).
Notation BInv := (BInv cstate op handle).

Definition call_image (c : call) : Prop :=
  image (c_before _ _ _ _ _ c) (c_after _ _ _ _ _ c) (c_in _ _ _ _ _ c) (c_out _ _ _ _ _ c)
        (c_err _ _ _ _ _ c) (c_typed _ _ _ _ _ c).

Theorem twin_image : forall is b t, R b t ->
  (forall c, In c (twin_run b t is) -> is_panic (c_out _ _ _ _ _ c) = false) ->
  Forall call_image (twin_run b t is).
Proof.
  induction is as [|i rest IH]; intros b t HR Hnp; simpl; [constructor|].
  simpl in Hnp.
  destruct (translate b i) as [ti err] eqn:Et.
  destruct (bridge_step b i) as [b' r] eqn:Eb.
  destruct (typed_opt_step t ti) as [t' tr] eqn:Ety.
  assert (Hr : is_panic r = false) by (apply (Hnp (mkCall _ _ _ _ _ i r err tr b b')); left; reflexivity).
  pose proof (step_image _ _ _ _ _ _ _ core_event core_process core_call core_drop core_view
                dec_event dec_out enc_reqs enc_view b t i b' r HR Eb Hr) as [HR' Him].
  rewrite Et in HR', Him. simpl in HR', Him. rewrite Ety in HR', Him. simpl in HR', Him.
  constructor.
  - exact Him.
  - apply IH; auto. intros c Hc. apply Hnp. right. exact Hc.
Qed.

(* the same, as seen by a shell that decodes what it gets *)
Definition decoded_image (c : call) : Prop :=
  match c_err _ _ _ _ _ c with
  | Some e => c_out _ _ _ _ _ c = Err e
  | None =>
      match c_typed _ _ _ _ _ c with
      | TEffects effs =>
          exists bs ids, c_out _ _ _ _ _ c = Ok bs /\
            dec_reqs bs = Some (combine ids (map e_op effs), []) /\
            length ids = length effs /\ NoDup ids /\
            (forall j id ef, nth_error ids j = Some id -> nth_error effs j = Some ef ->
               slab_get (b_reg (c_after _ _ _ _ _ c)) id =
                 Some (mkR (e_kind ef) (e_h ef) (e_op ef) (b_seq (c_before _ _ _ _ _ c) + j))) /\
            (forall id, In id ids -> slab_get (b_reg (c_before _ _ _ _ _ c)) id = None \/
                                     exists data, c_in _ _ _ _ _ c = BResp id data)
      | TErr e => c_out _ _ _ _ _ c = Err e
      | TViewOut v => exists bs, c_out _ _ _ _ _ c = Ok bs /\ dec_view bs = Some (v, [])
      | TUnit => False
      end
  end.

Lemma call_image_decoded c : call_image c -> decoded_image c.
Proof.
  unfold call_image, decoded_image, BridgeProofs.image.
  destruct (c_err _ _ _ _ _ c); auto.
  destruct (c_typed _ _ _ _ _ c) as [effs|e|v|]; auto.
  - intros (ids & Hlen & Hout & Hreg & Hfresh).
    exists (enc_reqs (combine ids (map e_op effs))), ids.
    split; [exact Hout|]. split.
    + rewrite <- (app_nil_r (enc_reqs _)). apply reqs_law.
    + split; [exact Hlen|]. split; [|exact (conj Hreg Hfresh)].
      apply NoDup_nth_inj. intros i j id Hi Hj.
      assert (Hi' : i < length effs) by (rewrite <- Hlen; eapply nth_error_lt; eauto).
      assert (Hj' : j < length effs) by (rewrite <- Hlen; eapply nth_error_lt; eauto).
      destruct (nth_error effs i) as [ei|] eqn:Ei; [|apply nth_error_None in Ei; lia].
      destruct (nth_error effs j) as [ej|] eqn:Ej; [|apply nth_error_None in Ej; lia].
      pose proof (Hreg _ _ _ Hi Ei) as H1. pose proof (Hreg _ _ _ Hj Ej) as H2.
      rewrite H1 in H2. inversion H2. lia.
  - intros Hout. exists (enc_view v). split; [exact Hout|].
    rewrite <- (app_nil_r (enc_view v)). apply view_law.
Qed.

Theorem twin_decoded_image : forall is b t, R b t ->
  (forall c, In c (twin_run b t is) -> is_panic (c_out _ _ _ _ _ c) = false) ->
  Forall decoded_image (twin_run b t is).
Proof.
  intros is b t HR Hnp. eapply Forall_impl; [|apply twin_image; eauto].
  intros c. apply call_image_decoded.
Qed.

Lemma R_init c : R (bridge_init cstate op handle c) (typed_init cstate handle c).
Proof.
  split; [reflexivity|]. split; [reflexivity|]. split; [apply wf_empty|]. split.
  - intros id e H. destruct id; discriminate.
  - intros id1 id2 e1 e2 H. destruct id1; discriminate.
Qed.

(* ---------- routing ---------- *)
(* The request registered under [id] according to the log is the entry the slab has under [id]; a
   response (id, data) that decodes to v is mirrored by the typed resolve of exactly that request
   with v ... *)
Theorem routes_translate (b : bstate) id s data :
  BInv b -> In (s, id) (live (b_log b)) ->
  exists e, slab_get (b_reg b) id = Some e /\ r_seq e = s /\
    (forall s', In (s', id) (live (b_log b)) -> s' = s) /\
    (forall v rest, dec_out (r_op e) data = Some (v, rest) -> r_kind e <> KNever ->
       translate b (BResp id data) = (Some (TResolve s v), None)).
Proof.
  intros (Hwf & HL & Hlw) Hin. destruct (proj1 (HL s id) Hin) as (e & Hg & Hs).
  exists e. split; [exact Hg|]. split; [exact Hs|]. split.
  - intros s' Hin'. destruct (proj1 (HL s' id) Hin') as (e' & Hg' & Hs'). congruence.
  - intros v rest Hd Hk. simpl. rewrite Hg. destruct (r_kind e); [congruence| |]; rewrite Hd, Hs; reflexivity.
Qed.

(* ... and the bridge call invokes exactly that entry's callback with v, then lets the core run *)
Theorem routes_core (b : bstate) id e v rest data b' r :
  BInv b -> slab_get (b_reg b) id = Some e -> r_kind e <> KNever ->
  dec_out (r_op e) data = Some (v, rest) ->
  bridge_step b (BResp id data) = (b', r) -> is_panic r = false ->
  let c1 := fst (core_call (b_core b) (r_h e) v) in
  let ok := snd (core_call (b_core b) (r_h e) v) in
  match r_kind e, ok with
  | KMany, false => b_core b' = c1 /\ r = Err E_FinishedMany
  | _, _ => b_core b' = fst (core_process c1) /\ is_ok r = true
  end.
Proof.
  intros HB Hg Hk Hd Hs Hnp. simpl in Hs. unfold resume in Hs. rewrite Hg in Hs.
  assert (Hfin : forall b1 c effs, wf (b_reg b1) -> finish cstate op handle B enc_reqs b1 c effs = (b', r) ->
                   b_core b' = c /\ is_ok r = true).
  { intros b1 c effs Hwf1 Hf. unfold finish in Hf.
    destruct (register_all_no_err _ _ effs (b_reg b1) (b_seq b1) (b_log b1) Hwf1) as [[[[[r0 s0] l0] q0] E]|E];
      rewrite E in Hf; inversion Hf; subst; simpl in *; [auto|discriminate]. }
  destruct (r_kind e) eqn:Ek; [congruence| |]; rewrite Hd in Hs.
  - unfold set_never in Hs.
    destruct HB as (Hwf & _).
    destruct (forget_spec _ _ _ b (fst (core_call (b_core b) (r_h e) v)) id e
                (mkR KNever (r_h e) (r_op e) (r_seq e)) (Ok tt) Hwf Hg) as (reg' & E & _ & _ & _ & Hwf').
    rewrite E in Hs. simpl in Hs.
    destruct (core_call (b_core b) (r_h e) v) as [c1 ok]. simpl in *.
    destruct (core_process c1) as [c2 effs] eqn:Ep. simpl.
    apply Hfin in Hs; [|exact Hwf']. destruct ok; exact Hs.
  - destruct (core_call (b_core b) (r_h e) v) as [c1 ok]. simpl in *. destruct ok.
    + destruct (core_process c1) as [c2 effs] eqn:Ep. simpl. apply Hfin in Hs; [exact Hs|apply HB].
    + inversion Hs; subst. auto.
Qed.

End ImageProofs.
