(* Instance of the bridge model used to evaluate harness cases inside coqc, the observation type,
   the decidable trace predicate C09_ok and the verdict function.  Executable definitions only.

   The core is instantiated by a *replay core*: tables built from what the real typed Core did in
   the twin run (effects per event, effects per process(), result of each callback invocation, view
   after every run).  Every lookup checks that the bridge model enters the core with the same event /
   (callback, value) as the typed shell did; a mismatch poisons the state.  The codec is a small
   self-delimiting symbolic codec over [list N] (laws proved in TwinProofs.v); the real bincode /
   serde_json bytes are decoded by the harness with the real serde implementations.               *)
From Coq Require Import List Arith Bool ZArith NArith.
From Crux Require Import Base.Res Bridge.Slab Bridge.Bridge.
Import ListNotations.
Open Scope N_scope.

Definition aop : Type := (N * N)%type.                 (* (variant, payload) of an operation *)
Definition aeff : Type := eff aop nat.                  (* handle = arrival number in the typed run *)
Definition aview : Type := list N.

(* ------------------------------------------------------------------ equality tests *)
Definition aop_eqb (a b : aop) : bool := N.eqb (fst a) (fst b) && N.eqb (snd a) (snd b).
Fixpoint list_eqb {A} (eqb : A -> A -> bool) (a b : list A) : bool :=
  match a, b with
  | [], [] => true
  | x :: a', y :: b' => eqb x y && list_eqb eqb a' b'
  | _, _ => false
  end.
Definition rkind_code (k : rkind) : N := match k with KNever => 0 | KOnce => 1 | KMany => 2 end.
Definition aeff_eqb (a b : aeff) : bool :=
  aop_eqb (e_op a) (e_op b) && rkind_eqb (e_kind a) (e_kind b) && Nat.eqb (e_h a) (e_h b).
Definition opt_eqb {A} (eqb : A -> A -> bool) (a b : option A) : bool :=
  match a, b with Some x, Some y => eqb x y | None, None => true | _, _ => false end.

(* ------------------------------------------------------------------ symbolic codec over list N *)
(* event: [0; ev]; output value: [0; v]; anything else is undecodable *)
Definition t_dec_event (bs : list N) : option (N * list N) :=
  match bs with 0 :: ev :: rest => Some (ev, rest) | _ => None end.
Definition t_dec_out (_ : aop) (bs : list N) : option (N * list N) :=
  match bs with 0 :: v :: rest => Some (v, rest) | _ => None end.

Fixpoint t_enc_req_items (l : list (nat * aop)) : list N :=
  match l with
  | [] => []
  | (id, (va, pa)) :: r => N.of_nat id :: va :: pa :: t_enc_req_items r
  end.
Definition t_enc_reqs (l : list (nat * aop)) : list N := N.of_nat (length l) :: t_enc_req_items l.

Fixpoint t_dec_req_items (n : nat) (bs : list N) : option (list (nat * aop) * list N) :=
  match n with
  | O => Some ([], bs)
  | S n' =>
      match bs with
      | id :: va :: pa :: rest =>
          match t_dec_req_items n' rest with
          | Some (l, rest') => Some ((N.to_nat id, (va, pa)) :: l, rest')
          | None => None
          end
      | _ => None
      end
  end.
Definition t_dec_reqs (bs : list N) : option (list (nat * aop) * list N) :=
  match bs with n :: rest => t_dec_req_items (N.to_nat n) rest | [] => None end.

Definition t_enc_view (v : aview) : list N := N.of_nat (length v) :: v.
Definition t_dec_view (bs : list N) : option (aview * list N) :=
  match bs with n :: rest => if Nat.leb (N.to_nat n) (length rest)
                             then Some (firstn (N.to_nat n) rest, skipn (N.to_nat n) rest) else None
              | [] => None end.

(* ------------------------------------------------------------------ the replay core *)
Record rtables : Type := mkTables {
  tb_evs : list (N * list aeff);          (* k-th process_event: the event and its effects *)
  tb_procs : list (list aeff);            (* k-th process() after a successful resolve: its effects *)
  tb_calls : list (nat * N * bool);       (* k-th callback invocation: handle, value, Many-result *)
  tb_views : list aview }.                (* view after k runs of the core (index 0 = initial) *)

Record rcs : Type := mkRcs { n_ev : nat; n_proc : nat; n_call : nat; rc_bad : bool }.
Definition rcs_init : rcs := mkRcs 0 0 0 false.
Definition poison (c : rcs) : rcs := mkRcs (n_ev c) (n_proc c) (n_call c) true.

Definition rc_event (tb : rtables) (c : rcs) (ev : N) : rcs * list aeff :=
  match nth_error (tb_evs tb) (n_ev c) with
  | Some (ev', effs) =>
      if N.eqb ev ev' then (mkRcs (S (n_ev c)) (n_proc c) (n_call c) (rc_bad c), effs) else (poison c, [])
  | None => (poison c, [])
  end.
Definition rc_process (tb : rtables) (c : rcs) : rcs * list aeff :=
  match nth_error (tb_procs tb) (n_proc c) with
  | Some effs => (mkRcs (n_ev c) (S (n_proc c)) (n_call c) (rc_bad c), effs)
  | None => (poison c, [])
  end.
Definition rc_call (tb : rtables) (c : rcs) (h : nat) (v : N) : rcs * bool :=
  match nth_error (tb_calls tb) (n_call c) with
  | Some (h', v', ok) =>
      if Nat.eqb h h' && N.eqb v v' then (mkRcs (n_ev c) (n_proc c) (S (n_call c)) (rc_bad c), ok)
      else (poison c, true)
  | None => (poison c, true)
  end.
Definition rc_drop (c : rcs) (_ : nat) : rcs := c.
Definition rc_view (tb : rtables) (c : rcs) : aview := nth (n_ev c + n_proc c) (tb_views tb) [].

Definition rc_exhausted (tb : rtables) (c : rcs) : bool :=
  negb (rc_bad c) && Nat.eqb (n_ev c) (length (tb_evs tb)) && Nat.eqb (n_proc c) (length (tb_procs tb))
  && Nat.eqb (n_call c) (length (tb_calls tb)).

(* the model instantiated *)
Definition m_bstate : Type := bstate rcs aop nat.
Definition m_tstate : Type := tstate rcs nat.
Definition m_binput : Type := binput N.
Definition m_call : Type := call rcs aop aview nat N.

Definition m_twin_run (tb : rtables) (is : list m_binput) : list m_call :=
  twin_run rcs N aop N aview nat N (rc_event tb) (rc_process tb) (rc_call tb) rc_drop (rc_view tb)
           t_dec_event t_dec_out t_enc_reqs t_enc_view
           (bridge_init rcs aop nat rcs_init) (typed_init rcs nat rcs_init) is.

(* ------------------------------------------------------------------ observations *)
Inductive oin : Type :=
| OEvent (decodable : bool) (ev : N)         (* process_event; ev = identity of the event *)
| OResp (id : nat) (v : option N)            (* handle_response(id, body); Some v = what the body decodes to *)
| OViewCall.
Inductive otin : Type := OTEvent (ev : N) | OTResolve (seq : nat) (v : N) | OTDrop (seq : nat) | OTViewCall.
Inductive otout : Type := OTEffects (l : list (aop * rkind)) | OTErr (e : Z) | OTViewOut (v : aview) | OTUnit.
Inductive obout : Type := OBOk (l : list (nat * aop)) | OBErr (e : Z) | OBPanic | OBViewOut (v : aview).

Record ocall : Type := mkO {
  o_in : oin;
  o_tin : option otin;              (* what the typed shell did to mirror the call *)
  o_tout : otout;                   (* what the typed Core returned *)
  o_bout : obout;                   (* what the bridge returned, decoded *)
  o_tview : aview;                  (* typed Core::view() after the call *)
  o_bview : aview;                  (* bridge view(), decoded, after the call *)
  o_snap : list (nat * rkind) }.    (* registry entries after the call (verif hook) *)

Definition otin_eqb (a b : otin) : bool :=
  match a, b with
  | OTEvent x, OTEvent y => N.eqb x y
  | OTResolve s v, OTResolve s' v' => Nat.eqb s s' && N.eqb v v'
  | OTDrop s, OTDrop s' => Nat.eqb s s'
  | OTViewCall, OTViewCall => true
  | _, _ => false
  end.
Definition opk_eqb (a b : aop * rkind) : bool := aop_eqb (fst a) (fst b) && rkind_eqb (snd a) (snd b).
Definition otout_eqb (a b : otout) : bool :=
  match a, b with
  | OTEffects x, OTEffects y => list_eqb opk_eqb x y
  | OTErr x, OTErr y => Z.eqb x y
  | OTViewOut x, OTViewOut y => list_eqb N.eqb x y
  | OTUnit, OTUnit => true
  | _, _ => false
  end.
Definition req_eqb (a b : nat * aop) : bool := Nat.eqb (fst a) (fst b) && aop_eqb (snd a) (snd b).
Definition obout_eqb (a b : obout) : bool :=
  match a, b with
  | OBOk x, OBOk y => list_eqb req_eqb x y
  | OBErr x, OBErr y => Z.eqb x y
  | OBPanic, OBPanic => true
  | OBViewOut x, OBViewOut y => list_eqb N.eqb x y
  | _, _ => false
  end.
Definition snap_eqb (a b : list (nat * rkind)) : bool :=
  list_eqb (fun x y => Nat.eqb (fst x) (fst y) && rkind_eqb (snd x) (snd y)) a b.

(* what the model predicts for one call, in observation form *)
Definition snap_of (b : m_bstate) : list (nat * rkind) :=
  map (fun p => (fst p, r_kind (snd p))) (slab_iter (b_reg b)).

Definition conv_tin (i : tinput N N) : otin :=
  match i with TEvent ev => OTEvent ev | TResolve s v => OTResolve s v | TDrop s => OTDrop s | TView => OTViewCall end.

Definition conv_tout (err : option Z) (t : tout aop aview nat) : otout :=
  match err with
  | Some _ => OTUnit
  | None =>
      match t with
      | TEffects l => OTEffects (map (fun e => (e_op e, e_kind e)) l)
      | TErr e => OTErr e
      | TViewOut v => OTViewOut v
      | TUnit => OTUnit
      end
  end.

Definition conv_bout (tr : tout aop aview nat) (r : res (list N)) : obout :=
  match r with
  | Ok bs =>
      match tr with
      | TViewOut _ => match t_dec_view bs with Some (v, []) => OBViewOut v | _ => OBPanic end
      | _ => match t_dec_reqs bs with Some (l, []) => OBOk l | _ => OBPanic end
      end
  | Err e => OBErr e
  | Panic => OBPanic
  | OutOfFuel => OBPanic
  end.

Definition m_tin (tb : rtables) (c : m_call) : option otin :=
  option_map conv_tin
    (fst (translate rcs N aop N nat N t_dec_event t_dec_out (c_before _ _ _ _ _ c) (c_in _ _ _ _ _ c))).

Definition model_obs (tb : rtables) (i : oin) (c : m_call) : ocall :=
  let v := rc_view tb (b_core (c_after _ _ _ _ _ c)) in
  mkO i (m_tin tb c)
      (conv_tout (c_err _ _ _ _ _ c) (c_typed _ _ _ _ _ c))
      (conv_bout (c_typed _ _ _ _ _ c) (c_out _ _ _ _ _ c))
      v v (snap_of (c_after _ _ _ _ _ c)).

(* ------------------------------------------------------------------ building the model's input from a case *)
Definition bin_of (i : oin) : m_binput :=
  match i with
  | OEvent true ev => BEvent [0; ev]
  | OEvent false _ => BEvent [1]
  | OResp id (Some v) => BResp id [0; v]
  | OResp id None => BResp id [1]
  | OViewCall => BView
  end.

(* arrival numbers are assigned to the typed effects in order of appearance *)
Fixpoint number_effs (seq : nat) (l : list (aop * rkind)) : list aeff :=
  match l with
  | [] => []
  | (o, k) :: r => mkEff o k seq :: number_effs (S seq) r
  end.

(* tables from the typed side of the observations; [seq] = arrival number of the next effect *)
Fixpoint tables_from (obs : list ocall) (seq : nat) (tb : rtables) : rtables :=
  match obs with
  | [] => tb
  | o :: rest =>
      match o_tin o, o_tout o with
      | Some (OTEvent ev), OTEffects l =>
          tables_from rest (seq + length l)
            (mkTables (tb_evs tb ++ [(ev, number_effs seq l)]) (tb_procs tb) (tb_calls tb) (tb_views tb ++ [o_tview o]))
      | Some (OTResolve s v), OTEffects l =>
          tables_from rest (seq + length l)
            (mkTables (tb_evs tb) (tb_procs tb ++ [number_effs seq l]) (tb_calls tb ++ [(s, v, true)]) (tb_views tb ++ [o_tview o]))
      | Some (OTResolve s v), OTErr 4%Z =>
          tables_from rest seq
            (mkTables (tb_evs tb) (tb_procs tb) (tb_calls tb ++ [(s, v, false)]) (tb_views tb))
      | _, _ => tables_from rest seq tb
      end
  end.

(* ------------------------------------------------------------------ C09_ok: on the implementation's observations only *)
Definition mem_nat (x : nat) (l : list nat) : bool := existsb (Nat.eqb x) l.
Fixpoint nodup_nat (l : list nat) : bool :=
  match l with [] => true | x :: r => negb (mem_nat x r) && nodup_nat r end.
Definition snap_kind (s : list (nat * rkind)) (id : nat) : option rkind :=
  match find (fun p => Nat.eqb (fst p) id) s with Some p => Some (snd p) | None => None end.

(* (1) the decoded bridge output is the typed output: same operations in the same order / same error *)
Definition image_ok (o : ocall) : bool :=
  match o_tout o, o_bout o with
  | OTEffects effs, OBOk reqs => list_eqb aop_eqb (map fst effs) (map snd reqs)
  | OTErr e, OBErr e' => Z.eqb e e'
  | OTViewOut v, OBViewOut v' => list_eqb N.eqb v v'
  | OTUnit, OBErr _ => true
  | _, _ => false
  end.

(* (2) ids handed out in this call are pairwise distinct, were free before the call (or are the id this
   very call responded to), are registered afterwards, with the arity of the typed effect *)
Definition ids_ok (prev : list (nat * rkind)) (o : ocall) : bool :=
  match o_tout o, o_bout o with
  | OTEffects effs, OBOk reqs =>
      let ids := map fst reqs in
      nodup_nat ids &&
      forallb (fun id => negb (mem_nat id (map fst prev)) ||
                         match o_in o with OResp rid _ => Nat.eqb id rid | _ => false end) ids &&
      list_eqb (opt_eqb rkind_eqb) (map (fun id => snap_kind (o_snap o) id) ids) (map (fun e => Some (snd e)) effs)
  | _, _ => true
  end.

(* (3) same view: every continuation saw the value its response carried *)
Definition view_ok (o : ocall) : bool := list_eqb N.eqb (o_tview o) (o_bview o).

Definition C09_call_ok (prev : list (nat * rkind)) (o : ocall) : bool := image_ok o && ids_ok prev o && view_ok o.

Fixpoint C09_ok_from (prev : list (nat * rkind)) (obs : list ocall) : bool :=
  match obs with
  | [] => true
  | o :: rest => C09_call_ok prev o && C09_ok_from (o_snap o) rest
  end.
Definition C09_ok (obs : list ocall) : bool := C09_ok_from [] obs.

(* ------------------------------------------------------------------ verdicts *)
Definition ocall_eqb (a b : ocall) : bool :=
  opt_eqb otin_eqb (o_tin a) (o_tin b) && otout_eqb (o_tout a) (o_tout b) && obout_eqb (o_bout a) (o_bout b)
  && list_eqb N.eqb (o_tview a) (o_tview b) && list_eqb N.eqb (o_bview a) (o_bview b)
  && snap_eqb (o_snap a) (o_snap b).

Definition model_run (init_view : aview) (obs : list ocall) : list ocall * bool :=
  let tb := tables_from obs 0 (mkTables [] [] [] [init_view]) in
  let ins := map o_in obs in
  let calls := m_twin_run tb (map bin_of ins) in
  let final := match rev calls with c :: _ => b_core (c_after _ _ _ _ _ c) | [] => rcs_init end in
  (map (fun p => model_obs tb (fst p) (snd p)) (combine ins calls), rc_exhausted tb final).

(* 0 = model and implementation agree and C09_ok holds; 1 = they differ but C09_ok holds;
   2 = C09_ok fails on the implementation's observations *)
Definition verdict (c : aview * list ocall) : N :=
  let (init_view, obs) := c in
  if negb (C09_ok obs) then 2
  else let (m, exhausted) := model_run init_view obs in
       if list_eqb ocall_eqb m obs && exhausted then 0 else 1.

Definition verdicts (cs : list (aview * list ocall)) : list N := map verdict cs.

(* diagnostics: [verdict; index of the first offending call; what differs there]
   for verdict 2: 1 image, 2 ids, 3 view;  for verdict 1: 1 tin, 2 tout, 3 bout, 4 tview, 5 bview, 6 snap,
   7 lengths differ / tables not exhausted *)
Definition field_diff (a b : ocall) : N :=
  if negb (opt_eqb otin_eqb (o_tin a) (o_tin b)) then 1
  else if negb (otout_eqb (o_tout a) (o_tout b)) then 2
  else if negb (obout_eqb (o_bout a) (o_bout b)) then 3
  else if negb (list_eqb N.eqb (o_tview a) (o_tview b)) then 4
  else if negb (list_eqb N.eqb (o_bview a) (o_bview b)) then 5
  else if negb (snap_eqb (o_snap a) (o_snap b)) then 6 else 0.
Fixpoint first_diff (n : N) (m obs : list ocall) : N * N :=
  match m, obs with
  | a :: m', b :: obs' => if ocall_eqb a b then first_diff (n + 1) m' obs' else (n, field_diff a b)
  | [], [] => (n, 7)
  | _, _ => (n, 7)
  end.
Fixpoint ok_fail_at (n : N) (prev : list (nat * rkind)) (obs : list ocall) : N * N :=
  match obs with
  | [] => (n, 0)
  | o :: rest =>
      if negb (image_ok o) then (n, 1) else if negb (ids_ok prev o) then (n, 2)
      else if negb (view_ok o) then (n, 3) else ok_fail_at (n + 1) (o_snap o) rest
  end.
Definition diag (c : aview * list ocall) : list N :=
  let v := verdict c in
  match v with
  | 0 => [0; 0; 0]
  | 2 => let (n, k) := ok_fail_at 0 [] (snd c) in [2; n; k]
  | _ => let (n, k) := first_diff 0 (fst (model_run (fst c) (snd c))) (snd c) in [v; n; k]
  end.
Definition diags (cs : list (aview * list ocall)) : list N := flat_map diag cs.

(* ------------------------------------------------------------------ a concrete run (non-vacuity witness) *)
Definition nv_tables : rtables :=
  mkTables [(7, [mkEff (0, 0) KNever 0%nat; mkEff (3, 5) KOnce 1%nat; mkEff (5, 5) KMany 2%nat])]
           [[mkEff (3, 6) KOnce 3%nat]]
           [(1%nat, 42, true)]
           [[]; [1]; [2]].
Definition nv_history : list m_binput :=
  [BEvent [0; 7]; BResp 1 [0; 42]; BResp 9 [0; 1]; BResp 0 [1]; BResp 2 [1]].
Definition nonvacuous_run : bool :=
  let calls := m_twin_run nv_tables nv_history in
  list_eqb obout_eqb (map (fun c => conv_bout (c_typed _ _ _ _ _ c) (c_out _ _ _ _ _ c)) calls)
    [OBOk [(0%nat, (0, 0)); (1%nat, (3, 5)); (2%nat, (5, 5))];    (* three effects, ids 0 1 2 *)
     OBOk [(1%nat, (3, 6))];                                       (* id 1 resolved, forgotten, reissued (LIFO) *)
     OBErr 3; OBErr 3; OBErr 2]                                    (* unknown id; a notification's id; bad body for a stream *)
  && match rev calls with
     | c :: _ => snap_eqb (snap_of (c_after _ _ _ _ _ c)) [(1%nat, KOnce); (2%nat, KMany)]
     | [] => false
     end.
