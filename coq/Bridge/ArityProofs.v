(* The trace predicate C02_ok holds of the model's own trace, for every case. *)
From Coq Require Import List Arith Bool ZArith NArith Lia.
From Crux Require Import Base.Res Bridge.Slab Bridge.Bridge Bridge.Resolve Bridge.Arity.
Import ListNotations.

Lemma ev_eqb_refl e : ev_eqb e e = true.
Proof. unfold ev_eqb. rewrite Nat.eqb_refl, N.eqb_refl. reflexivity. Qed.

Lemma evs_eqb_refl l : evs_eqb l l = true.
Proof. induction l as [|x t IH]; simpl; auto. rewrite ev_eqb_refl, IH. reflexivity. Qed.

Lemma resolve_step_code r chs v : res_code (snd (resolve_step r chs v)) <> 9%Z.
Proof.
  destruct r as [|c|c]; simpl; try discriminate.
  - destruct (chan_send chs c v); simpl; discriminate.
  - destruct (chan_send chs c v) as [chs1 ok]; simpl. destruct ok; discriminate.
Qed.

Lemma sresolve_step_code s chs b : res_code (snd (sresolve_step s chs b)) <> 9%Z.
Proof.
  destruct s as [|c|c]; simpl; try discriminate; destruct b as [v|]; simpl; try discriminate.
  - destruct (chan_send chs c v); simpl; discriminate.
  - destruct (chan_send chs c v) as [chs1 ok]; simpl. destruct ok; discriminate.
Qed.

Lemma step_code h a : res_code (o_res (snd (step h a))) <> 9%Z.
Proof.
  destruct a as [owner k limit legacy|rid v|rid body|rid| | |]; simpl; try discriminate.
  - destruct k; simpl; discriminate.
  - destruct (nth_error (h_reqs h) rid) as [q|]; simpl; [|discriminate].
    pose proof (resolve_step_code (q_res q) (h_chans h) v) as H.
    destruct (resolve_step (q_res q) (h_chans h) v) as [[r' chs'] res]. exact H.
  - destruct (nth_error (h_reqs h) rid) as [q|]; simpl; [|discriminate].
    pose proof (sresolve_step_code (deserializing (q_res q)) (h_chans h) body) as H.
    destruct (sresolve_step (deserializing (q_res q)) (h_chans h) body) as [[s' chs'] res]. exact H.
  - destruct (nth_error (h_reqs h) rid); simpl; discriminate.
  - destruct (h_aborted h); [simpl; discriminate|]. destruct (poll_chans (h_chans h)); simpl; discriminate.
Qed.

Lemma model_step_code auto lg h st : snd (fst (model_step auto lg h st)) <> 9%Z.
Proof.
  unfold model_step. destruct (primary auto (s_act st)) as [a|]; [|cbn; discriminate].
  pose proof (step_code h a) as H. destruct (step h a) as [h1 o]. cbn [fst snd] in H.
  destruct (auto && follows_with_poll (s_act st) && Z.eqb (res_code (o_res o)) 0).
  - destruct (step h1 APoll) as [h2 o2]. cbn [fst snd]. exact H.
  - cbn [fst snd]. exact H.
Qed.

Lemma model_step_ignores_obs auto lg h act code evs new code' evs' :
  model_step auto lg h (mkStep act code evs new) = model_step auto lg h (mkStep act code' evs' new).
Proof. reflexivity. Qed.

Lemma run_model_trace_ok auto lg : forall steps h n ex iex iok,
  snd (fst (fst (run_case auto lg h n (model_trace auto lg h steps) (ex, true, iex, iok)))) = true.
Proof.
  induction steps as [|st rest IH]; intros h n ex iex iok; simpl; [reflexivity|].
  pose proof (model_step_code auto lg h st) as Hc.
  destruct (model_step auto lg h st) as [[h1 code] evs] eqn:E. simpl in Hc.
  assert (E' : model_step auto lg h (mkStep (s_act st) code evs (s_new st)) = (h1, code, evs)).
  { rewrite <- E. destruct st; reflexivity. }
  simpl. rewrite E'.
  assert (Hok : step_ok code evs (mkStep (s_act st) code evs (s_new st)) = true).
  { unfold step_ok. simpl. rewrite eqb_reflx, evs_eqb_refl, andb_true_r. simpl.
    apply negb_true_iff. apply Z.eqb_neq. exact Hc. }
  rewrite Hok. simpl. apply IH.
Qed.

Theorem model_C02_ok : forall auto lg steps, C02_ok (auto, lg, model_trace auto lg heap_empty steps) = true.
Proof.
  intros auto lg steps. unfold C02_ok. simpl.
  pose proof (run_model_trace_ok auto lg steps heap_empty 0%N true 0%N 0%N) as H.
  destruct (run_case auto lg heap_empty 0 (model_trace auto lg heap_empty steps) (true, true, 0%N, 0%N)) as [[[ex ok] iex] iok].
  exact H.
Qed.
