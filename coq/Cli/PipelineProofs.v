(* What [Pipeline.fixture_ok] = true means for a regenerated description. *)
From Coq Require Import List String NArith Bool Permutation.
From Crux Require Import Cli.Format Cli.FormatProofs Cli.Closure Cli.ClosureProofs Cli.Pipeline.
Import ListNotations.
Open Scope string_scope.
Open Scope list_scope.

Lemma gid_eqb_spec (a b : gid) : reflect (a = b) (gid_eqb a b).
Proof.
  destruct a as [c n], b as [c' n']. unfold gid_eqb. cbn [fst snd].
  destruct (N.eqb_spec n n'), (String.eqb_spec c c'); cbn; constructor; congruence.
Qed.

Theorem fixture_ok_sound d es reg crates : fixture_ok d es reg crates = true ->
  (* the Formatter model reproduces the registry the code returned *)
  format es = reg
  (* which is closed (up to the fixed Request container) and has contiguous variant indices *)
  /\ closed_mod_requestb reg = true
  /\ (definesb es "Effect" = true -> closedb reg = true)
  /\ contiguousb reg = true
  (* and is what every consistent renumbering of the ids and every order of the edges gives *)
  /\ (forall rho es', (forall c a b, rho c a = rho c b -> a = b) ->
        Permutation (rename_edges rho es) es' -> format es' = reg)
  (* the edge relation the code derived is the least fixpoint of the edge rules, so every order of
     the facts and every order of visiting the crates derives the same set *)
  /\ (forall F fuel G, facts_equiv (gfacts d) F -> closure gid_eqb fuel F [] = Some G ->
        forall e, In e G <-> In e (map gpair es))
  /\ (forall order fuel G, Permutation crates order ->
        run_crates gid_eqb fuel (map (fun c => gfacts (crate_dump d c)) order) = Some G ->
        forall e, In e G <-> In e (map gpair es)).
Proof.
  unfold fixture_ok. intros H. do 6 (apply andb_prop in H as [H ?]).
  match goal with Hx : registry_eqb _ _ = true |- _ => apply registry_eqb_eq in Hx; rename Hx into Hreg end.
  match goal with Hx : resolvedb _ = true |- _ => apply resolvedb_resolved in Hx; rename Hx into Hres end.
  match goal with Hx : unambiguousb _ = true |- _ => apply unambiguousb_sound in Hx; rename Hx into Hun end.
  rename H into Hwf.
  subst reg. split; [reflexivity|]. split; [apply format_closed; exact Hres|].
  split; [intros He; apply format_closed_full; [exact Hres | apply definesb_defines; exact He]|].
  split; [apply format_contiguous; exact Hwf|].
  split; [intros rho es' Hinj HP; apply (format_pure rho); [exact Hinj | apply wf_edges_fun_ids; exact Hwf | exact Hun | exact HP]|].
  split.
  - intros F fuel G HF HG e.
    match goal with Hx : closure_matches (closure _ _ _ _) _ = true |- _ => rename Hx into Hc end.
    unfold closure_matches in Hc. destruct (closure gid_eqb (fuel_for d) (gfacts d) []) as [G0|] eqn:E0; [|discriminate].
    apply (same_edges_sound gid_eqb gid_eqb_spec) in Hc. rewrite <- (Hc e).
    symmetry. eapply (closure_order_free gid_eqb gid_eqb_spec); [exact HF | intros x; reflexivity | exact E0 | exact HG].
  - intros order fuel G HP HG e.
    match goal with Hx : closure_matches (run_crates _ _ (map _ crates)) _ = true |- _ => rename Hx into Hc end.
    unfold closure_matches in Hc.
    destruct (run_crates gid_eqb (fuel_for d) (map (fun c => gfacts (crate_dump d c)) crates)) as [G0|] eqn:E0; [|discriminate].
    apply (same_edges_sound gid_eqb gid_eqb_spec) in Hc. rewrite <- (Hc e).
    symmetry. eapply (run_crates_order_free gid_eqb gid_eqb_spec); [|exact E0 | exact HG].
    apply Permutation_map. exact HP.
Qed.

(* C20_ok holds of the model: for a description that passes [fixture_ok], the model's registry for
   every renumbered and reordered version satisfies the trace predicate, strictly (closed) whenever an
   Effect type is defined, i.e. outside the class request_without_effect. *)
Lemma registry_eqb_refl r : registry_eqb r r = true.
Proof.
  assert (Hf : forall f, fmt_eqb f f = true).
  { induction f using fmt_ind'; cbn [fmt_eqb].
    - apply String.eqb_refl.
    - destruct p; reflexivity.
    - exact IHf.
    - exact IHf.
    - rewrite IHf1, IHf2. reflexivity.
    - induction H as [|x l Hx Hl IH]; [reflexivity|]. rewrite Hx, IH. reflexivity.
    - rewrite IHf, N.eqb_refl. reflexivity.
    - reflexivity. }
  assert (Hl : forall A (e : A -> A -> bool), (forall a, e a a = true) -> forall l, list_eqb e l l = true).
  { intros A e He l. induction l as [|a l IH]; cbn; [reflexivity|]. rewrite He, IH. reflexivity. }
  assert (Hn : forall A (e : A -> A -> bool), (forall a, e a a = true) -> forall p, named_eqb e p p = true).
  { intros A e He [n a]. unfold named_eqb. cbn. rewrite String.eqb_refl, He. reflexivity. }
  assert (Hv : forall v, vfmt_eqb v v = true).
  { destruct v; cbn [vfmt_eqb]; [reflexivity | apply Hf | apply Hl; exact Hf | apply Hl; apply Hn; exact Hf]. }
  assert (Hc : forall c, container_eqb c c = true).
  { destruct c; cbn [container_eqb]; [reflexivity | apply Hf | apply Hl; exact Hf | apply Hl; apply Hn; exact Hf |].
    apply Hl. intros [i p]. cbn [fst snd]. rewrite N.eqb_refl. apply Hn. exact Hv. }
  unfold registry_eqb. apply Hl. apply Hn. exact Hc.
Qed.

Theorem ok_of_model d es reg crates : fixture_ok d es reg crates = true ->
  forall rho es', (forall c a b, rho c a = rho c b -> a = b) -> Permutation (rename_edges rho es) es' ->
  C20_ok reg (format es') = true
  /\ (known_request_without_effect (format es') = false -> definesb es "Effect" = true ->
      C20_ok_strict reg (format es') = true).
Proof.
  intros H rho es' Hinj HP. destruct (fixture_ok_sound _ _ _ _ H) as [Hf [Hc [Hce [Hk [Hp _]]]]].
  rewrite (Hp rho es' Hinj HP). unfold C20_ok_strict, C20_ok. rewrite registry_eqb_refl, Hc, Hk. split; [reflexivity|].
  intros _ He. rewrite (Hce He). reflexivity.
Qed.

(* ================================================================ closedness of the whole pipeline *)
(* "Local types are followed": the edge(field, type) rule puts the type of every reached field among
   the edge targets, the field/variant/leaf rules then make it the source of an edge, and the
   Formatter gives every such source a container.  Hence the registry [pipeline] returns is closed
   (up to Request -> Effect) as soon as every type name a field's format uses is the name() of a local
   struct/enum the field points to - with a variant if it is an enum - or is the Range of a direct
   Range field.  What the hypothesis excludes is exactly the known classes: remote types whose crate
   does not reach them, renamed types, variant-less enums, nested Range. *)
Definition tbl_fun (tbl : list item) : Prop :=
  forall x y, In x tbl -> In y tbl -> it_id x = it_id y -> x = y.

Definition productive (d : dump) (t : item) : Prop :=
  is_struct t = true
  \/ (is_enum_item t = true /\ exists v, In (t, v) (d_variant d) /\ In v (d_items d) /\ has_variant t v = true).

(* for every REACHED field and every type name its format uses: it is the Range of a direct Range field,
   or the name of a local type the field points to, or (remote-crate hypothesis) the name of a root of
   one of the crates visited - e.g. the operation type a dependency declares *)
Definition followed (d : dump) (G : list (gid * gid)) : Prop :=
  forall f s, In f (d_items d) -> (exists a, In (a, it_id f) G) -> In s (names_of_item f) ->
    (s = "Range" /\ exists c, it_range f = Some c)
    \/ (exists t, In t (d_items d) /\ In (f, t) (d_type d) /\ it_name t = Some s /\ productive d t)
    \/ (exists t, In t (d_items d) /\ In t (d_root d) /\ it_name t = Some s /\ productive d t).

Definition fields_in_table (d : dump) : Prop :=
  forall e, In e (d_field d) -> In (fst e) (d_items d) /\ In (snd e) (d_items d).

Lemma get_in tbl x : tbl_fun tbl -> In x tbl -> get tbl (it_id x) = x.
Proof.
  intros Hf Hx. unfold get. destruct (find (fun y => gid_eqb (it_id y) (it_id x)) tbl) as [y|] eqn:E.
  - apply find_some in E as [Hy He]. destruct (gid_eqb_spec (it_id y) (it_id x)); [|discriminate]. apply Hf; assumption.
  - pose proof (find_none _ _ E x Hx) as H. cbn in H. destruct (gid_eqb_spec (it_id x) (it_id x)); congruence.
Qed.

Lemma get_named tbl g s : In s (names_of_item (get tbl g)) -> In (get tbl g) tbl /\ it_id (get tbl g) = g.
Proof.
  unfold get. destruct (find (fun y => gid_eqb (it_id y) g) tbl) as [y|] eqn:E.
  - intros _. apply find_some in E as [Hy He]. destruct (gid_eqb_spec (it_id y) g); [auto | discriminate].
  - cbn. intros [].
Qed.

Lemma container_of_struct t es s : it_name t = Some s -> is_struct t = true -> exists c, In (s, c) (container_of t es).
Proof.
  intros Hn Hs. unfold container_of. rewrite Hn. unfold is_struct in Hs.
  destruct (it_kind t); try discriminate; eexists; left; reflexivity.
Qed.

Lemma edges_of_In tbl G a b : In (a, b) G -> In (get tbl a, get tbl b) (edges_of tbl G).
Proof. intros H. unfold edges_of. apply in_map_iff. exists (a, b). split; [reflexivity | exact H]. Qed.

(* a productive type that is a root or the target of an edge is the source of an edge, hence defined *)
Lemma source_defined d fuel G t s :
  tbl_fun (d_items d) -> fields_in_table d ->
  closure gid_eqb fuel (gfacts d) [] = Some G ->
  In t (d_items d) -> it_name t = Some s -> productive d t ->
  (In t (d_root d) \/ exists b, In (b, it_id t) G) ->
  defines (edges_of (d_items d) G) s.
Proof.
  intros Htbl Hfld Hc Htin Hname Hprod Hreach.
  set (es := edges_of (d_items d) G).
  assert (Hspec := closure_spec gid_eqb gid_eqb_spec _ _ _ _ Hc).
  assert (Hroot : In t (d_root d) -> In (it_id t) (f_root (gfacts d))) by (intros H; cbn [gfacts f_root]; apply in_map; exact H).
  destruct Hprod as [Hst | [Hen [v [Hv [Hvin Hhv]]]]].
  - destruct (existsb (fun e => same_item (fst e) t) (d_field d)) eqn:Ex.
    + apply existsb_exists in Ex as [[t' c] [Hin Hsame]]. cbn [fst] in Hsame.
      destruct (Hfld _ Hin) as [Ht' Hcin]. cbn [fst snd] in Ht', Hcin.
      assert (t' = t) by (apply Htbl; try assumption; apply same_item_iff; exact Hsame). subst t'.
      assert (Hf : In (it_id t, it_id c) (f_field (gfacts d)))
        by (cbn [gfacts f_field]; apply in_map_iff; exists (t, c); split; [reflexivity | exact Hin]).
      assert (Htc : In (it_id t, it_id c) G).
      { apply Hspec. destruct Hreach as [Hr | [b Hb]].
        - apply d_root_field; [apply Hroot; exact Hr | exact Hf].
        - eapply d_step; [apply Hspec; exact Hb|]. unfold all_rels. apply in_or_app. left. exact Hf. }
      destruct (container_of_struct t es s Hname Hst) as [k Hk]. exists k.
      unfold derived_containers. apply in_or_app. left. apply in_flat_map.
      exists (get (d_items d) (it_id t), get (d_items d) (it_id c)). split; [apply edges_of_In; exact Htc|].
      cbn [fst]. rewrite (get_in _ _ Htbl Htin). exact Hk.
    + assert (Hl : In (it_id t) (f_leaf (gfacts d))).
      { cbn [gfacts f_leaf]. apply in_map. apply filter_In. split; [exact Htin|]. unfold is_leaf. rewrite Hst, Ex. reflexivity. }
      assert (Htt : In (it_id t, it_id t) G).
      { apply Hspec. destruct Hreach as [Hr | [b Hb]].
        - apply d_leaf_root; [apply Hroot; exact Hr | exact Hl].
        - eapply d_leaf; [apply Hspec; exact Hb | exact Hl]. }
      destruct (container_of_struct t es s Hname Hst) as [k Hk]. exists k.
      unfold derived_containers. apply in_or_app. left. apply in_flat_map.
      exists (get (d_items d) (it_id t), get (d_items d) (it_id t)). split; [apply edges_of_In; exact Htt|].
      cbn [fst]. rewrite (get_in _ _ Htbl Htin). exact Hk.
  - assert (Hf : In (it_id t, it_id v) (f_variant (gfacts d)))
      by (cbn [gfacts f_variant]; apply in_map_iff; exists (t, v); split; [reflexivity | exact Hv]).
    assert (Htv : In (it_id t, it_id v) G).
    { apply Hspec. destruct Hreach as [Hr | [b Hb]].
      - apply d_root_variant; [apply Hroot; exact Hr | exact Hf].
      - eapply d_step; [apply Hspec; exact Hb|]. unfold all_rels. apply in_or_app. right. apply in_or_app. left. exact Hf. }
    assert (Hedge : In (t, v) es).
    { pose proof (edges_of_In (d_items d) _ _ _ Htv) as H. rewrite (get_in _ _ Htbl Htin), (get_in _ _ Htbl Hvin) in H. exact H. }
    assert (Hch : In v (children has_variant t es)).
    { apply children_In. exists (t, v). cbn [fst snd]. repeat split; try assumption. apply same_item_iff. reflexivity. }
    unfold is_enum_item in Hen. exists (CEnum (enum_entries 0 (variants t es) es)).
    unfold derived_containers. apply in_or_app. left. apply in_flat_map. exists (t, v). split; [exact Hedge|].
    cbn [fst]. unfold container_of. rewrite Hname. destruct (it_kind t); try discriminate.
    destruct (children has_variant t es); [contradiction|]. left. reflexivity.
Qed.

Theorem pipeline_closed d fuel G :
  tbl_fun (d_items d) -> fields_in_table d ->
  closure gid_eqb fuel (gfacts d) [] = Some G -> followed d G ->
  closed_mod_requestb (format (edges_of (d_items d) G)) = true.
Proof.
  intros Htbl Hfld Hc Hfol. apply format_closed.
  assert (Hspec := closure_spec gid_eqb gid_eqb_spec _ _ _ _ Hc).
  intros e He Hhf s Hs.
  unfold edges_of in He. apply in_map_iff in He as [[a b] [Ee Hab]]. subst e. cbn [fst snd] in *.
  destruct (get_named _ _ _ Hs) as [Hfin Hfid].
  assert (Hreach : exists a0, In (a0, it_id (get (d_items d) b)) G) by (exists a; rewrite Hfid; exact Hab).
  destruct (Hfol _ _ Hfin Hreach Hs) as [[Hr [c Hrc]] | [[t [Htin [Hty [Hname Hprod]]]] | [t [Htin [Hrt [Hname Hprod]]]]]].
  - subst s. exists c. unfold derived_containers. apply in_or_app. right. unfold range_containers.
    apply filter_map_In. exists (get (d_items d) a, get (d_items d) b). split; [apply edges_of_In; exact Hab|].
    cbn [fst snd]. rewrite Hhf, Hrc. reflexivity.
  - eapply source_defined; try eassumption. right. exists b.
    apply Hspec. eapply d_step; [apply Hspec; exact Hab|]. unfold all_rels. apply in_or_app. right. apply in_or_app. right.
    cbn [gfacts f_type]. apply in_map_iff. exists (get (d_items d) b, t). split; [|exact Hty]. unfold gpair. cbn [fst snd]. rewrite Hfid. reflexivity.
  - eapply source_defined; try eassumption. left. exact Hrt.
Qed.
