(* What [Pipeline.fixture_ok] = true means for a regenerated description. *)
From Coq Require Import List String NArith Bool Permutation.
From Crux Require Import Cli.Format Cli.FormatProofs Cli.Closure Cli.ClosureProofs Cli.Pipeline.
Import ListNotations.
Open Scope string_scope.
Open Scope list_scope.

Lemma gid_eqb_spec (a b : gid) : reflect (a = b) (gid_eqb a b).
Proof.
  destruct a as [c n], b as [c' n']. unfold gid_eqb. cbn [fst snd].
  destruct (N.eqb_spec n n'), (String.eqb_spec c c'); cbn; constructor; congruence.
Qed.

Theorem fixture_ok_sound d es reg crates : fixture_ok d es reg crates = true ->
  (* the Formatter model reproduces the registry the code returned *)
  format es = reg
  (* which is closed (up to the fixed Request container) and has contiguous variant indices *)
  /\ closed_mod_requestb reg = true
  /\ (definesb es "Effect" = true -> closedb reg = true)
  /\ contiguousb reg = true
  (* and is what every consistent renumbering of the ids and every order of the edges gives *)
  /\ (forall rho es', (forall c a b, rho c a = rho c b -> a = b) ->
        Permutation (rename_edges rho es) es' -> format es' = reg)
  (* the edge relation the code derived is the least fixpoint of the edge rules, so every order of
     the facts and every order of visiting the crates derives the same set *)
  /\ (forall F fuel G, facts_equiv (gfacts d) F -> closure gid_eqb fuel F [] = Some G ->
        forall e, In e G <-> In e (map gpair es))
  /\ (forall order fuel G, Permutation crates order ->
        run_crates gid_eqb fuel (map (fun c => gfacts (crate_dump d c)) order) = Some G ->
        forall e, In e G <-> In e (map gpair es)).
Proof.
  unfold fixture_ok. intros H. do 6 (apply andb_prop in H as [H ?]).
  match goal with Hx : registry_eqb _ _ = true |- _ => apply registry_eqb_eq in Hx; rename Hx into Hreg end.
  match goal with Hx : resolvedb _ = true |- _ => apply resolvedb_resolved in Hx; rename Hx into Hres end.
  match goal with Hx : unambiguousb _ = true |- _ => apply unambiguousb_sound in Hx; rename Hx into Hun end.
  rename H into Hwf.
  subst reg. split; [reflexivity|]. split; [apply format_closed; exact Hres|].
  split; [intros He; apply format_closed_full; [exact Hres | apply definesb_defines; exact He]|].
  split; [apply format_contiguous; exact Hwf|].
  split; [intros rho es' Hinj HP; apply (format_pure rho); [exact Hinj | apply wf_edges_fun_ids; exact Hwf | exact Hun | exact HP]|].
  split.
  - intros F fuel G HF HG e.
    match goal with Hx : closure_matches (closure _ _ _ _) _ = true |- _ => rename Hx into Hc end.
    unfold closure_matches in Hc. destruct (closure gid_eqb (fuel_for d) (gfacts d) []) as [G0|] eqn:E0; [|discriminate].
    apply (same_edges_sound gid_eqb gid_eqb_spec) in Hc. rewrite <- (Hc e).
    symmetry. eapply (closure_order_free gid_eqb gid_eqb_spec); [exact HF | intros x; reflexivity | exact E0 | exact HG].
  - intros order fuel G HP HG e.
    match goal with Hx : closure_matches (run_crates _ _ (map _ crates)) _ = true |- _ => rename Hx into Hc end.
    unfold closure_matches in Hc.
    destruct (run_crates gid_eqb (fuel_for d) (map (fun c => gfacts (crate_dump d c)) crates)) as [G0|] eqn:E0; [|discriminate].
    apply (same_edges_sound gid_eqb gid_eqb_spec) in Hc. rewrite <- (Hc e).
    symmetry. eapply (run_crates_order_free gid_eqb gid_eqb_spec); [|exact E0 | exact HG].
    apply Permutation_map. exact HP.
Qed.

(* C20_ok holds of the model: for a description that passes [fixture_ok], the model's registry for
   every renumbered and reordered version satisfies the trace predicate, strictly (closed) whenever an
   Effect type is defined, i.e. outside the class request_without_effect. *)
Lemma registry_eqb_refl r : registry_eqb r r = true.
Proof.
  assert (Hf : forall f, fmt_eqb f f = true).
  { induction f using fmt_ind'; cbn [fmt_eqb].
    - apply String.eqb_refl.
    - destruct p; reflexivity.
    - exact IHf.
    - exact IHf.
    - rewrite IHf1, IHf2. reflexivity.
    - induction H as [|x l Hx Hl IH]; [reflexivity|]. rewrite Hx, IH. reflexivity.
    - rewrite IHf, N.eqb_refl. reflexivity.
    - reflexivity. }
  assert (Hl : forall A (e : A -> A -> bool), (forall a, e a a = true) -> forall l, list_eqb e l l = true).
  { intros A e He l. induction l as [|a l IH]; cbn; [reflexivity|]. rewrite He, IH. reflexivity. }
  assert (Hn : forall A (e : A -> A -> bool), (forall a, e a a = true) -> forall p, named_eqb e p p = true).
  { intros A e He [n a]. unfold named_eqb. cbn. rewrite String.eqb_refl, He. reflexivity. }
  assert (Hv : forall v, vfmt_eqb v v = true).
  { destruct v; cbn [vfmt_eqb]; [reflexivity | apply Hf | apply Hl; exact Hf | apply Hl; apply Hn; exact Hf]. }
  assert (Hc : forall c, container_eqb c c = true).
  { destruct c; cbn [container_eqb]; [reflexivity | apply Hf | apply Hl; exact Hf | apply Hl; apply Hn; exact Hf |].
    apply Hl. intros [i p]. cbn [fst snd]. rewrite N.eqb_refl. apply Hn. exact Hv. }
  unfold registry_eqb. apply Hl. apply Hn. exact Hc.
Qed.

Theorem ok_of_model d es reg crates : fixture_ok d es reg crates = true ->
  forall rho es', (forall c a b, rho c a = rho c b -> a = b) -> Permutation (rename_edges rho es) es' ->
  C20_ok reg (format es') = true
  /\ (known_request_without_effect (format es') = false -> definesb es "Effect" = true ->
      C20_ok_strict reg (format es') = true).
Proof.
  intros H rho es' Hinj HP. destruct (fixture_ok_sound _ _ _ _ H) as [Hf [Hc [Hce [Hk [Hp _]]]]].
  rewrite (Hp rho es' Hinj HP). unfold C20_ok_strict, C20_ok. rewrite registry_eqb_refl, Hc, Hk. split; [reflexivity|].
  intros _ He. rewrite (Hce He). reflexivity.
Qed.
