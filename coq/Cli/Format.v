(* Executable model of crux_cli/src/codegen/formatter.rs (the Datalog program [Formatter]) and of
   the final collect in codegen/mod.rs::format.

   What is modelled: the rules that derive containers from the [edge] relation - [field]/[variant]
   membership, [fields]/[variants] = declared ids filtered by presence among the edges and by
   serde(skip), index = position, the three struct shapes, the three variant shapes, [make_enum],
   [container] keyed by the item's name, the [Range] container, the fixed [Request] container -
   and the collect of the [container] relation into a BTreeMap (last writer wins on equal names).

   What is NOT modelled but dumped from the code by the translator (harness_cli, [verif_run] hook)
   and therefore tied by correspondence only: the item-level predicates - kind and declared child
   ids ([field_ids]/[variant_ids]), [ItemNode::name] (serde rename), [should_skip], the wire name
   of a field/variant ([field_name]/[variant_name], rename_all rules), [Type -> Format]
   ([make_format], serde(with = "serde_bytes")), [is_range]/[make_range].

   ItemNode equality in the code is equality of the GlobalId (crate name, rustdoc id); the model
   compares [it_id] in the same places. *)
From Coq Require Import List String Ascii NArith Bool.
Import ListNotations.
Open Scope string_scope.
Open Scope list_scope.

(* ---------------------------------------------------------------- formats (serde_generate::format) *)
Inductive prim := PUnit | PBool | PI8 | PI16 | PI32 | PI64 | PI128 | PU8 | PU16 | PU32 | PU64 | PU128
                | PF32 | PF64 | PChar | PStr | PBytes.

Inductive fmt : Type :=
| FTypeName (s : string)
| FPrim (p : prim)
| FOption (f : fmt)
| FSeq (f : fmt)
| FMap (k v : fmt)
| FTuple (fs : list fmt)
| FTupleArray (f : fmt) (n : N)
| FTodo.            (* the conversion panicked (todo!()); never part of a registry the code returns *)

Inductive vfmt : Type :=
| VUnit | VNewType (f : fmt) | VTuple (fs : list fmt) | VStruct (fs : list (string * fmt)).

Inductive container : Type :=
| CUnitStruct
| CNewTypeStruct (f : fmt)
| CTupleStruct (fs : list fmt)
| CStruct (fs : list (string * fmt))
| CEnum (vs : list (N * (string * vfmt))).     (* BTreeMap<u32, Named<VariantFormat>>: sorted by index *)

(* BTreeMap<String, ContainerFormat> in iteration order: strictly sorted by key *)
Definition registry := list (string * container).

(* ---------------------------------------------------------------- items *)
Definition gid := (string * N)%type.           (* GlobalId { crate_, id } *)
(* (the number is compared first: same truth value, and unequal ids mostly differ there) *)
Definition gid_eqb (a b : gid) : bool := N.eqb (snd a) (snd b) && String.eqb (fst a) (fst b).

Inductive kind :=
| KStructUnit | KStructPlain (ids : list N) | KStructTuple (ids : list N)
| KEnum (ids : list N)
| KVariantPlain | KVariantTuple (ids : list N) | KVariantStruct (ids : list N)
| KField | KOther.

Record item := mkItem {
  it_id : gid;
  it_name : option string;       (* ItemNode::name(): the item's name after serde(rename = "..") *)
  it_raw : option string;        (* item.name: the Rust name (what a reference to the type is formatted as) *)
  it_kind : kind;
  it_skip : bool;                (* ItemNode::should_skip() *)
  it_wire : option string;       (* field_name(..) / variant_name(..) with respect to its parent *)
  it_fmt : option fmt;           (* for struct fields: the Format make_format gives it *)
  it_range : option container;   (* is_range() && make_range() *)
}.

Definition crate_of (x : item) : string := fst (it_id x).
Definition lid (x : item) : N := snd (it_id x).
Definition same_item (a b : item) : bool := gid_eqb (it_id a) (it_id b).     (* PartialEq for ItemNode *)

Definition field_ids (x : item) : list N :=
  match it_kind x with
  | KStructPlain ids | KStructTuple ids | KVariantTuple ids | KVariantStruct ids => ids
  | _ => []
  end.
Definition variant_ids (x : item) : list N :=
  match it_kind x with KEnum ids => ids | _ => [] end.

Definition opt_str_eqb (a : option string) (s : string) : bool :=
  match a with Some t => String.eqb t s | None => false end.

(* ItemNode::has_field *)
Definition has_field (x f : item) : bool :=
  String.eqb (crate_of x) (crate_of f) && negb (it_skip f)
  && negb (opt_str_eqb (it_name f) "__private_field")
  && existsb (N.eqb (lid f)) (field_ids x).
(* ItemNode::has_variant *)
Definition has_variant (x v : item) : bool :=
  String.eqb (crate_of x) (crate_of v) && negb (it_skip v)
  && existsb (N.eqb (lid v)) (variant_ids x).

(* ---------------------------------------------------------------- the Formatter rules *)
Definition edges := list (item * item).

(* field(x, f) <-- edge(x, f), if x.has_field(f)      (the f's, for one x)
   variant(e, v) <-- edge(e, v), if e.has_variant(v) *)
Definition children (rel : item -> item -> bool) (x : item) (es : edges) : list item :=
  map snd (filter (fun e => same_item (fst e) x && rel (fst e) (snd e)) es).

Fixpoint filter_map {A B} (f : A -> option B) (l : list A) : list B :=
  match l with
  | [] => []
  | a :: l' => match f a with Some b => b :: filter_map f l' | None => filter_map f l' end
  end.

(* ItemNode::fields / ItemNode::variants: the declared ids, each looked up among the collected
   children (first non-skipped one with that id), absent ones dropped *)
Definition pick (ids : list N) (cs : list item) : list item :=
  filter_map (fun id => find (fun c => negb (it_skip c) && N.eqb id (lid c)) cs) ids.
Definition fields (x : item) (es : edges) : list item := pick (field_ids x) (children has_field x es).
Definition variants (x : item) (es : edges) : list item := pick (variant_ids x) (children has_variant x es).

(* format(x, Indexed<Format>) collected and sorted by index: one entry per member of [fields x]
   that is a struct field (make_format), in position order *)
Definition plain_fmts (x : item) (es : edges) : list fmt := filter_map it_fmt (fields x es).
(* format_named(x, ..): additionally needs the field's name (make_named_format) *)
Definition named_fmts (x : item) (es : edges) : list (string * fmt) :=
  filter_map (fun f => match it_wire f, it_fmt f with
                       | Some n, Some v => Some (n, v)
                       | _, _ => None
                       end) (fields x es).

(* make_plain_variant_format / make_tuple_variant_format / make_struct_variant_format *)
Definition variant_fmt (v : item) (es : edges) : option (string * vfmt) :=
  match it_wire v with
  | None => None
  | Some n =>
    match it_kind v with
    | KVariantPlain => Some (n, VUnit)
    | KVariantTuple _ => Some (n, match plain_fmts v es with
                                  | [] => VUnit
                                  | [f] => VNewType f
                                  | fs => VTuple fs
                                  end)
    | KVariantStruct _ => Some (n, VStruct (named_fmts v es))
    | _ => None
    end
  end.

Fixpoint enum_entries (i : N) (vs : list item) (es : edges) : list (N * (string * vfmt)) :=
  match vs with
  | [] => []
  | v :: vs' => match variant_fmt v es with
                | Some nv => (i, nv) :: enum_entries (N.succ i) vs' es
                | None => enum_entries (N.succ i) vs' es
                end
  end.

(* the container rules, for one item that occurs as the source of an edge *)
Definition container_of (x : item) (es : edges) : list (string * container) :=
  match it_name x with
  | None => []
  | Some name =>
    match it_kind x with
    | KStructPlain _ => [(name, match named_fmts x es with [] => CUnitStruct | fs => CStruct fs end)]
    | KStructUnit => [(name, CUnitStruct)]
    | KStructTuple _ => [(name, match plain_fmts x es with
                                | [] => CUnitStruct
                                | [f] => CNewTypeStruct f
                                | fs => CTupleStruct fs
                                end)]
    | KEnum _ => match children has_variant x es with
                 | [] => []
                 | _ => [(name, CEnum (enum_entries 0 (variants x es) es))]
                 end
    | _ => []
    end
  end.

(* container("Range", c) <-- field(_, f), if f.is_range(), if let Some(c) = make_range(f) *)
Definition range_containers (es : edges) : list (string * container) :=
  filter_map (fun e => if has_field (fst e) (snd e)
                       then match it_range (snd e) with Some c => Some ("Range", c) | None => None end
                       else None) es.

(* make_request *)
Definition request_container : container :=
  CStruct [("id", FPrim PU32); ("effect", FTypeName "Effect")].

(* the [container] relation, in an order determined by the order of the edges (the order the code
   produces depends on hash iteration order; the theorems quantify over all orders) *)
Definition derived_containers (es : edges) : list (string * container) :=
  flat_map (fun e => container_of (fst e) es) es ++ range_containers es.
Definition containers (es : edges) : list (string * container) :=
  derived_containers es ++ [("Request", request_container)].

(* ---------------------------------------------------------------- collect into a BTreeMap *)
Fixpoint insert (k : string) (v : container) (m : registry) : registry :=
  match m with
  | [] => [(k, v)]
  | (k', v') :: m' =>
    match String.compare k k' with
    | Lt => (k, v) :: m
    | Eq => (k, v) :: m'
    | Gt => (k', v') :: insert k v m'
    end
  end.
Definition build (l : list (string * container)) : registry :=
  fold_left (fun m kv => insert (fst kv) (snd kv) m) l [].

(* codegen::format *)
Definition format (es : edges) : registry := build (containers es).

Fixpoint lookup (k : string) (m : list (string * container)) : option container :=
  match m with
  | [] => None
  | (k', v) :: m' => if String.eqb k k' then Some v else lookup k m'
  end.
Definition has_key (k : string) (m : registry) : bool :=
  match lookup k m with Some _ => true | None => false end.

(* ---------------------------------------------------------------- renumbering of ids *)
(* rustdoc numbers the items of each crate independently: a renumbering is a function of the crate
   and the old number *)
Definition renum := string -> N -> N.
Definition rename_kind (r : N -> N) (k : kind) : kind :=
  match k with
  | KStructPlain ids => KStructPlain (map r ids)
  | KStructTuple ids => KStructTuple (map r ids)
  | KEnum ids => KEnum (map r ids)
  | KVariantTuple ids => KVariantTuple (map r ids)
  | KVariantStruct ids => KVariantStruct (map r ids)
  | k => k
  end.
Definition rename_item (rho : renum) (x : item) : item :=
  mkItem (crate_of x, rho (crate_of x) (lid x)) (it_name x) (it_raw x) (rename_kind (rho (crate_of x)) (it_kind x))
         (it_skip x) (it_wire x) (it_fmt x) (it_range x).
Definition rename_edges (rho : renum) (es : edges) : edges :=
  map (fun e => (rename_item rho (fst e), rename_item rho (snd e))) es.

(* ---------------------------------------------------------------- decidable equalities *)
Definition prim_eqb (a b : prim) : bool :=
  match a, b with
  | PUnit, PUnit | PBool, PBool | PI8, PI8 | PI16, PI16 | PI32, PI32 | PI64, PI64 | PI128, PI128
  | PU8, PU8 | PU16, PU16 | PU32, PU32 | PU64, PU64 | PU128, PU128 | PF32, PF32 | PF64, PF64
  | PChar, PChar | PStr, PStr | PBytes, PBytes => true
  | _, _ => false
  end.

Section ListEqb.
  Context {A : Type} (eqb : A -> A -> bool).
  Fixpoint list_eqb (a b : list A) : bool :=
    match a, b with
    | [], [] => true
    | x :: a', y :: b' => eqb x y && list_eqb a' b'
    | _, _ => false
    end.
End ListEqb.

Fixpoint fmt_eqb (a b : fmt) : bool :=
  match a, b with
  | FTypeName s, FTypeName t => String.eqb s t
  | FPrim p, FPrim q => prim_eqb p q
  | FOption x, FOption y => fmt_eqb x y
  | FSeq x, FSeq y => fmt_eqb x y
  | FMap k v, FMap k' v' => fmt_eqb k k' && fmt_eqb v v'
  | FTuple xs, FTuple ys =>
      (fix go (xs ys : list fmt) : bool :=
         match xs, ys with
         | [], [] => true
         | x :: xs', y :: ys' => fmt_eqb x y && go xs' ys'
         | _, _ => false
         end) xs ys
  | FTupleArray x n, FTupleArray y m => fmt_eqb x y && N.eqb n m
  | FTodo, FTodo => true
  | _, _ => false
  end.

Definition named_eqb {A} (eqb : A -> A -> bool) (a b : string * A) : bool :=
  String.eqb (fst a) (fst b) && eqb (snd a) (snd b).

Definition vfmt_eqb (a b : vfmt) : bool :=
  match a, b with
  | VUnit, VUnit => true
  | VNewType x, VNewType y => fmt_eqb x y
  | VTuple xs, VTuple ys => list_eqb fmt_eqb xs ys
  | VStruct xs, VStruct ys => list_eqb (named_eqb fmt_eqb) xs ys
  | _, _ => false
  end.

Definition container_eqb (a b : container) : bool :=
  match a, b with
  | CUnitStruct, CUnitStruct => true
  | CNewTypeStruct x, CNewTypeStruct y => fmt_eqb x y
  | CTupleStruct xs, CTupleStruct ys => list_eqb fmt_eqb xs ys
  | CStruct xs, CStruct ys => list_eqb (named_eqb fmt_eqb) xs ys
  | CEnum xs, CEnum ys => list_eqb (fun p q => N.eqb (fst p) (fst q) && named_eqb vfmt_eqb (snd p) (snd q)) xs ys
  | _, _ => false
  end.

Definition registry_eqb (a b : registry) : bool := list_eqb (named_eqb container_eqb) a b.

(* ---------------------------------------------------------------- predicates on a registry *)
Fixpoint fmt_names (f : fmt) : list string :=
  match f with
  | FTypeName s => [s]
  | FPrim _ | FTodo => []
  | FOption x | FSeq x | FTupleArray x _ => fmt_names x
  | FMap k v => fmt_names k ++ fmt_names v
  | FTuple xs => (fix go (xs : list fmt) : list string :=
                    match xs with [] => [] | x :: xs' => fmt_names x ++ go xs' end) xs
  end.
Definition vfmt_names (v : vfmt) : list string :=
  match v with
  | VUnit => []
  | VNewType f => fmt_names f
  | VTuple fs => flat_map fmt_names fs
  | VStruct fs => flat_map (fun nf => fmt_names (snd nf)) fs
  end.
Definition container_names (c : container) : list string :=
  match c with
  | CUnitStruct => []
  | CNewTypeStruct f => fmt_names f
  | CTupleStruct fs => flat_map fmt_names fs
  | CStruct fs => flat_map (fun nf => fmt_names (snd nf)) fs
  | CEnum vs => flat_map (fun e => vfmt_names (snd (snd e))) vs
  end.

(* closed: every TypeName that occurs in a container is a key *)
Definition closedb (m : registry) : bool :=
  forallb (fun kc => forallb (fun s => has_key s m) (container_names (snd kc))) m.
(* closed except for the reference the fixed [Request] container makes to [Effect] *)
Definition closed_mod_requestb (m : registry) : bool :=
  forallb (fun kc => String.eqb (fst kc) "Request" || forallb (fun s => has_key s m) (container_names (snd kc))) m.

Fixpoint keys_from (i : N) (vs : list (N * (string * vfmt))) : bool :=
  match vs with
  | [] => true
  | (k, _) :: vs' => N.eqb k i && keys_from (N.succ i) vs'
  end.
(* contiguous: the keys of every enum container are 0, 1, .., n-1 in this order *)
Definition contiguousb (m : registry) : bool :=
  forallb (fun kc => match snd kc with CEnum vs => keys_from 0 vs | _ => true end) m.

Fixpoint fmt_has_todo (f : fmt) : bool :=
  match f with
  | FTodo => true
  | FTypeName _ | FPrim _ => false
  | FOption x | FSeq x | FTupleArray x _ => fmt_has_todo x
  | FMap k v => fmt_has_todo k || fmt_has_todo v
  | FTuple xs => (fix go (xs : list fmt) : bool :=
                    match xs with [] => false | x :: xs' => fmt_has_todo x || go xs' end) xs
  end.

(* ---------------------------------------------------------------- well-formedness of a description *)
Fixpoint nodupb (l : list N) : bool :=
  match l with [] => true | x :: l' => negb (existsb (N.eqb x) l') && nodupb l' end.

Definition items_of (es : edges) : list item := flat_map (fun e => [fst e; snd e]) es.

Definition item_eqb_shallow (a b : item) : bool :=
  (* enough to tell apart two dumped items with the same id: every dumped attribute but the nested
     format/range terms, which are compared too *)
  gid_eqb (it_id a) (it_id b)
  && match it_name a, it_name b with Some s, Some t => String.eqb s t | None, None => true | _, _ => false end
  && match it_raw a, it_raw b with Some s, Some t => String.eqb s t | None, None => true | _, _ => false end
  && Bool.eqb (it_skip a) (it_skip b)
  && match it_wire a, it_wire b with Some s, Some t => String.eqb s t | None, None => true | _, _ => false end
  && match it_fmt a, it_fmt b with Some s, Some t => fmt_eqb s t | None, None => true | _, _ => false end
  && match it_range a, it_range b with Some s, Some t => container_eqb s t | None, None => true | _, _ => false end
  && match it_kind a, it_kind b with
     | KStructUnit, KStructUnit | KVariantPlain, KVariantPlain | KField, KField | KOther, KOther => true
     | KStructPlain x, KStructPlain y | KStructTuple x, KStructTuple y | KEnum x, KEnum y
     | KVariantTuple x, KVariantTuple y | KVariantStruct x, KVariantStruct y => list_eqb N.eqb x y
     | _, _ => false
     end.

(* the facts about a description the theorems need as hypotheses, as a checkable predicate:
   an id names one item; declared child ids are distinct; a declared variant that is present has a
   name and is of a variant kind; a declared field that is present is a struct field; make_range only builds structs *)
Definition wf_edges (es : edges) : bool :=
  let its := items_of es in
  forallb (fun a => forallb (fun b => negb (same_item a b) || item_eqb_shallow a b) its) its
  && forallb (fun x => nodupb (field_ids x) && nodupb (variant_ids x)) its
  && forallb (fun e => negb (has_variant (fst e) (snd e))
                       || match it_kind (snd e), it_wire (snd e) with
                          | (KVariantPlain | KVariantTuple _ | KVariantStruct _), Some _ => true
                          | _, _ => false
                          end) es
  && forallb (fun e => negb (has_field (fst e) (snd e))
                       || match it_kind (snd e), it_fmt (snd e) with
                          | KField, Some f => negb (fmt_has_todo f)
                          | _, _ => false
                          end) es
  && forallb (fun e => match it_range (snd e) with Some (CStruct _) | None => true | Some _ => false end) es.

(* ---------------------------------------------------------------- decidable side conditions of the theorems *)
(* the type names a field item brings into the registry *)
Definition names_of_item (f : item) : list string :=
  match it_fmt f with Some t => fmt_names t | None => [] end
  ++ match it_range f with Some c => container_names c | None => [] end.
(* a container called [s] is derived from the edges (by an item with an outgoing edge, or the Range rule) *)
Definition definesb (es : edges) (s : string) : bool :=
  existsb (fun kc => String.eqb (fst kc) s) (derived_containers es).
(* every type name used by a field that is present names such an item *)
Definition resolvedb (es : edges) : bool :=
  forallb (fun e => negb (has_field (fst e) (snd e)) || forallb (definesb es) (names_of_item (snd e))) es.
(* no two different containers carry the same name *)
Definition unambiguousb (l : list (string * container)) : bool :=
  forallb (fun a => forallb (fun b => negb (String.eqb (fst a) (fst b)) || container_eqb (snd a) (snd b)) l) l.

Definition remove_key (k : string) (m : registry) : registry :=
  filter (fun kc => negb (String.eqb (fst kc) k)) m.
