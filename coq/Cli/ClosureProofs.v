(* The evaluation [Closure.iterate] computes the least fixpoint of the [edge] rules; consequently
   the edge set does not depend on the order of the facts, nor on the order in which the crates
   are visited. *)
From Coq Require Import List Bool Arith Lia Permutation.
From Crux Require Import Cli.Closure.
Import ListNotations.

Section Proofs.
  Context {A : Type} (eqb : A -> A -> bool).
  Hypothesis eqb_spec : forall a b, reflect (a = b) (eqb a b).

  Notation facts := (@facts A).
  Notation rel := (@rel A).

  Definition all_rels (F : facts) : rel := f_field F ++ f_variant F ++ f_type F.

  (* Datalog semantics of the eight rules: the least set closed under them that contains E0 *)
  Inductive derivable (F : facts) (E0 : rel) : A * A -> Prop :=
  | d_old e : In e E0 -> derivable F E0 e
  | d_unit r : In r (f_root F) -> In r (f_unit F) -> derivable F E0 (r, r)
  | d_leaf_root r : In r (f_root F) -> In r (f_leaf F) -> derivable F E0 (r, r)
  | d_leaf a x : derivable F E0 (a, x) -> In x (f_leaf F) -> derivable F E0 (x, x)
  | d_root_field r c : In r (f_root F) -> In (r, c) (f_field F) -> derivable F E0 (r, c)
  | d_root_variant r c : In r (f_root F) -> In (r, c) (f_variant F) -> derivable F E0 (r, c)
  | d_step a x c : derivable F E0 (a, x) -> In (x, c) (all_rels F) -> derivable F E0 (x, c).

  Lemma mem_In x l : mem eqb x l = true <-> In x l.
  Proof.
    unfold mem. rewrite existsb_exists. split.
    - intros [y [Hy He]]. destruct (eqb_spec x y); [subst; assumption | discriminate].
    - intros H. exists x. split; [assumption|]. destruct (eqb_spec x x); congruence.
  Qed.

  Lemma pair_eqb_spec (a b : A * A) : pair_eqb eqb a b = true <-> a = b.
  Proof.
    destruct a as [a1 a2], b as [b1 b2]. unfold pair_eqb. cbn [fst snd].
    destruct (eqb_spec a1 b1), (eqb_spec a2 b2); cbn; split; intros H; try discriminate; try congruence.
  Qed.

  Lemma mem_edge_In e E : mem_edge eqb e E = true <-> In e E.
  Proof.
    unfold mem_edge. rewrite existsb_exists. split.
    - intros [y [Hy He]]. apply pair_eqb_spec in He. subst. assumption.
    - intros H. exists e. split; [assumption|]. apply pair_eqb_spec. reflexivity.
  Qed.

  Lemma succs_In (r : rel) x c : In c (succs eqb r x) <-> In (x, c) r.
  Proof.
    unfold succs. rewrite in_map_iff. split.
    - intros [[p1 p2] [Hc Hf]]. apply filter_In in Hf as [Hin Heq]. cbn in *. subst.
      destruct (eqb_spec p1 x); [subst; assumption | discriminate].
    - intros H. exists (x, c). split; [reflexivity|]. apply filter_In. split; [assumption|].
      cbn. destruct (eqb_spec x x); congruence.
  Qed.

  Lemma init_In F e :
    In e (init eqb F) <->
    exists r, In r (f_root F) /\
      ((e = (r, r) /\ (In r (f_unit F) \/ In r (f_leaf F))) \/
       (exists c, e = (r, c) /\ (In (r, c) (f_field F) \/ In (r, c) (f_variant F)))).
  Proof.
    unfold init. rewrite in_flat_map. split.
    - intros [r [Hr He]]. exists r. split; [assumption|].
      rewrite !in_app_iff in He. destruct He as [He | [He | He]].
      + destruct (mem eqb r (f_unit F) || mem eqb r (f_leaf F)) eqn:Hm; [|contradiction].
        destruct He as [He|[]]. left. split; [congruence|].
        apply orb_true_iff in Hm as [Hm|Hm]; [left | right]; apply mem_In; assumption.
      + apply in_map_iff in He as [c [Hc Hin]]. right. exists c. split; [congruence|].
        left. apply succs_In. assumption.
      + apply in_map_iff in He as [c [Hc Hin]]. right. exists c. split; [congruence|].
        right. apply succs_In. assumption.
    - intros [r [Hr H]]. exists r. split; [assumption|]. rewrite !in_app_iff.
      destruct H as [[He Hu] | [c [He [Hf | Hv]]]]; subst.
      + left. assert (Hm : mem eqb r (f_unit F) || mem eqb r (f_leaf F) = true)
          by (apply orb_true_iff; destruct Hu as [Hu|Hu]; [left | right]; apply mem_In; exact Hu).
        rewrite Hm. left. reflexivity.
      + right. left. apply in_map. apply succs_In. assumption.
      + right. right. apply in_map. apply succs_In. assumption.
  Qed.

  Lemma derive1_In F E e :
    In e (derive1 eqb F E) <->
    exists a x, In (a, x) E /\ ((In x (f_leaf F) /\ e = (x, x)) \/ exists c, In (x, c) (all_rels F) /\ e = (x, c)).
  Proof.
    unfold derive1. rewrite in_flat_map. split.
    - intros [[a x] [Hin He]]. cbn [snd] in He. exists a, x. split; [assumption|].
      apply in_app_iff in He as [He|He].
      + destruct (mem eqb x (f_leaf F)) eqn:Hm; [|contradiction]. destruct He as [He|[]].
        left. split; [apply mem_In; exact Hm | congruence].
      + apply in_map_iff in He as [c [Hc Hs]]. right. exists c. split; [|congruence]. apply succs_In in Hs. exact Hs.
    - intros [a [x [Hin [[Hl He] | [c [Hr He]]]]]]; exists (a, x); (split; [assumption|]); cbn [snd]; subst; apply in_or_app.
      + left. apply mem_In in Hl. rewrite Hl. left. reflexivity.
      + right. apply in_map. apply succs_In. exact Hr.
  Qed.

  Lemma add_new_shape new : forall E,
    exists l, add_new eqb E new = E ++ l /\ (forall e, In e l -> In e new) /\
              (forall e, In e new -> In e (E ++ l)).
  Proof.
    unfold add_new. induction new as [|n new IH]; intros E; cbn [fold_left].
    - exists []. rewrite app_nil_r. split; [reflexivity|]. split; intros e [].
    - destruct (mem_edge eqb n E) eqn:Hm.
      + destruct (IH E) as [l [Hl [H1 H2]]]. exists l. split; [exact Hl|]. split.
        * intros e He. right. apply H1. exact He.
        * intros e [He|He]; [subst; apply in_or_app; left; apply mem_edge_In; exact Hm | apply H2; exact He].
      + destruct (IH (E ++ [n])) as [l [Hl [H1 H2]]]. exists (n :: l). split.
        * rewrite Hl. rewrite <- app_assoc. reflexivity.
        * split.
          -- intros e [He|He]; [left; exact He | right; apply H1; exact He].
          -- intros e [He|He].
             ++ subst. apply in_or_app. right. left. reflexivity.
             ++ specialize (H2 e He). rewrite <- app_assoc in H2. exact H2.
  Qed.

  Lemma add_new_In E new e : In e (add_new eqb E new) <-> In e E \/ In e new.
  Proof.
    destruct (add_new_shape new E) as [l [Hl [H1 H2]]]. rewrite Hl. rewrite in_app_iff. split.
    - intros [H|H]; [left; exact H | right; apply H1; exact H].
    - intros [H|H]; [left; exact H | apply in_app_iff; apply H2; exact H].
  Qed.

  Lemma add_new_same_length E new :
    length (add_new eqb E new) = length E -> forall e, In e new -> In e E.
  Proof.
    destruct (add_new_shape new E) as [l [Hl [H1 H2]]]. rewrite Hl. rewrite app_length. intros Hlen.
    assert (l = []) by (destruct l; [reflexivity | cbn in Hlen; lia]). subst. rewrite app_nil_r in H2. exact H2.
  Qed.

  (* what one terminated evaluation guarantees *)
  Lemma iterate_spec F E0 fuel : forall E R,
    iterate eqb fuel F E = Some R ->
    (forall e, In e E -> derivable F E0 e) ->
    (forall e, In e E -> In e R) /\ (forall e, In e R -> derivable F E0 e) /\
    (forall e, In e (derive1 eqb F R) -> In e R).
  Proof.
    induction fuel as [|n IH]; intros E R Hit Hinv; cbn [iterate] in Hit; [discriminate|].
    destruct (Nat.eqb (length (add_new eqb E (derive1 eqb F E))) (length E)) eqn:Hlen.
    - inversion Hit; subst R. split; [auto|]. split; [exact Hinv|].
      apply Nat.eqb_eq in Hlen. apply add_new_same_length. exact Hlen.
    - apply IH in Hit.
      + destruct Hit as [H1 [H2 H3]]. split; [|split; assumption].
        intros e He. apply H1. apply add_new_In. left. exact He.
      + intros e He. apply add_new_In in He as [He|He]; [apply Hinv; exact He|].
        apply derive1_In in He as [a [x [Hin [[Hl He] | [c [Hr He]]]]]]; subst.
        * eapply d_leaf; [apply Hinv; exact Hin | exact Hl].
        * eapply d_step; [apply Hinv; exact Hin | exact Hr].
  Qed.

  Theorem closure_spec F E0 fuel R :
    closure eqb fuel F E0 = Some R -> forall e, In e R <-> derivable F E0 e.
  Proof.
    unfold closure. intros Hc.
    apply (iterate_spec F E0) in Hc.
    - destruct Hc as [Hsub [Hsound Hclosed]]. intros e. split; [apply Hsound|].
      intros Hd. induction Hd as [e He | r Hr Hu | r Hr Hu | a x Hd IH Hl | r c Hr Hf | r c Hr Hv | a x c Hd IH Hrel].
      + apply Hsub. apply add_new_In. left. exact He.
      + apply Hsub. apply add_new_In. right. apply init_In. exists r. split; [exact Hr|]. left. split; [reflexivity | left; exact Hu].
      + apply Hsub. apply add_new_In. right. apply init_In. exists r. split; [exact Hr|]. left. split; [reflexivity | right; exact Hu].
      + apply Hclosed. apply derive1_In. exists a, x. split; [exact IH|]. left. split; [exact Hl | reflexivity].
      + apply Hsub. apply add_new_In. right. apply init_In. exists r. split; [exact Hr|]. right. exists c. split; [reflexivity|]. left. exact Hf.
      + apply Hsub. apply add_new_In. right. apply init_In. exists r. split; [exact Hr|]. right. exists c. split; [reflexivity|]. right. exact Hv.
      + apply Hclosed. apply derive1_In. exists a, x. split; [exact IH|]. right. exists c. split; [exact Hrel | reflexivity].
    - intros e He. apply add_new_In in He as [He|He]; [apply d_old; exact He|].
      apply init_In in He as [r [Hr [[He [Hu|Hu]] | [c [He [Hf|Hv]]]]]]; subst.
      + apply d_unit; assumption.
      + apply d_leaf_root; assumption.
      + apply d_root_field; assumption.
      + apply d_root_variant; assumption.
  Qed.

  (* ---- the facts only matter as sets *)
  Definition same_set {B} (l l' : list B) : Prop := forall x, In x l <-> In x l'.

  Record facts_equiv (F G : facts) : Prop := {
    fe_root : same_set (f_root F) (f_root G);
    fe_unit : same_set (f_unit F) (f_unit G);
    fe_leaf : same_set (f_leaf F) (f_leaf G);
    fe_field : same_set (f_field F) (f_field G);
    fe_variant : same_set (f_variant F) (f_variant G);
    fe_type : same_set (f_type F) (f_type G);
  }.

  Lemma all_rels_equiv F G : facts_equiv F G -> same_set (all_rels F) (all_rels G).
  Proof.
    intros [_ _ _ Hf Hv Ht] x. unfold all_rels. rewrite !in_app_iff. rewrite (Hf x), (Hv x), (Ht x). reflexivity.
  Qed.

  Lemma derivable_mono F G E0 E0' e :
    (forall x, In x (f_root F) -> In x (f_root G)) -> (forall x, In x (f_unit F) -> In x (f_unit G)) ->
    (forall x, In x (f_leaf F) -> In x (f_leaf G)) ->
    (forall x, In x (f_field F) -> In x (f_field G)) -> (forall x, In x (f_variant F) -> In x (f_variant G)) ->
    (forall x, In x (f_type F) -> In x (f_type G)) ->
    (forall x, In x E0 -> derivable G E0' x) ->
    derivable F E0 e -> derivable G E0' e.
  Proof.
    intros Hr Hu Hl Hf Hv Ht He Hd. induction Hd as [e H | r H1 H2 | r H1 H2 | a x Hd IH H2 | r c H1 H2 | r c H1 H2 | a x c Hd IH Hrel].
    - apply He. exact H.
    - apply d_unit; auto.
    - apply d_leaf_root; auto.
    - eapply d_leaf; [exact IH | auto].
    - apply d_root_field; auto.
    - apply d_root_variant; auto.
    - eapply d_step; [exact IH|]. unfold all_rels in *. rewrite !in_app_iff in *. intuition.
  Qed.

  Lemma derivable_equiv F G E0 E0' e :
    facts_equiv F G -> same_set E0 E0' -> derivable F E0 e <-> derivable G E0' e.
  Proof.
    intros [Hr Hu Hl Hf Hv Ht] HE. split; apply derivable_mono;
      try (intros x Hx; first [apply Hr | apply Hu | apply Hl | apply Hf | apply Hv | apply Ht]; exact Hx);
      intros x Hx; apply d_old; apply HE; exact Hx.
  Qed.

  (* The edge set is the same for every order in which the facts are listed / visited. *)
  Theorem closure_order_free F G E0 E0' fuel fuel' R R' :
    facts_equiv F G -> same_set E0 E0' ->
    closure eqb fuel F E0 = Some R -> closure eqb fuel' G E0' = Some R' ->
    same_set R R'.
  Proof.
    intros HF HE H1 H2 e. rewrite (closure_spec _ _ _ _ H1 e), (closure_spec _ _ _ _ H2 e).
    apply derivable_equiv; assumption.
  Qed.

  (* ---- crate by crate *)
  Fixpoint big_union (acc : facts) (cs : list facts) : facts :=
    match cs with [] => acc | c :: rest => big_union (union acc c) rest end.

  Lemma derivable_restart acc c E e :
    (forall x, In x E <-> derivable acc [] x) ->
    derivable (union acc c) E e <-> derivable (union acc c) [] e.
  Proof.
    intros HE. split.
    - apply derivable_mono; auto. intros x Hx. apply HE in Hx.
      revert Hx. apply derivable_mono; cbn; intros; try (apply in_or_app; left; assumption). contradiction.
    - apply derivable_mono; auto. intros x [].
  Qed.

  Lemma visit_spec fuel : forall cs acc E R,
    visit eqb fuel acc E cs = Some R ->
    (forall x, In x E <-> derivable acc [] x) ->
    forall x, In x R <-> derivable (big_union acc cs) [] x.
  Proof.
    induction cs as [|c rest IH]; intros acc E R Hv HE; cbn [visit big_union] in *.
    - inversion Hv; subst. exact HE.
    - destruct (closure eqb fuel (union acc c) E) as [E'|] eqn:Hc; [|discriminate].
      eapply IH; [exact Hv|]. intros x. rewrite (closure_spec _ _ _ _ Hc x). apply derivable_restart. exact HE.
  Qed.

  Lemma derivable_empty e : ~ derivable (@empty A) [] e.
  Proof.
    intros H. induction H as [e H | r H _ | r H _ | a x _ IH _ | r c H _ | r c H _ | a x c _ IH _]; try contradiction; exact IH.
  Qed.

  Theorem run_crates_spec fuel cs R :
    run_crates eqb fuel cs = Some R -> forall x, In x R <-> derivable (big_union (@empty A) cs) [] x.
  Proof.
    unfold run_crates. intros H. eapply visit_spec; [exact H|].
    intros x. split; [intros [] | intros Hd; exfalso; eapply derivable_empty; exact Hd].
  Qed.

  Lemma big_union_In (sel : facts -> list A) :
    (forall F G, sel (union F G) = sel F ++ sel G) ->
    forall cs acc x, In x (sel (big_union acc cs)) <-> In x (sel acc) \/ exists c, In c cs /\ In x (sel c).
  Proof.
    intros Hsel. induction cs as [|c rest IH]; intros acc x; cbn [big_union].
    - split; [auto | intros [H | [c [[] _]]]; exact H].
    - rewrite IH, Hsel, in_app_iff. split.
      + intros [[H|H] | [d [Hd Hx]]]; [left; exact H | right; exists c; split; [left; reflexivity | exact H] | right; exists d; split; [right; exact Hd | exact Hx]].
      + intros [H | [d [[Hd|Hd] Hx]]]; [left; left; exact H | subst; left; right; exact Hx | right; exists d; split; assumption].
  Qed.

  Lemma big_union_In_rel (sel : facts -> rel) :
    (forall F G, sel (union F G) = sel F ++ sel G) ->
    forall cs acc x, In x (sel (big_union acc cs)) <-> In x (sel acc) \/ exists c, In c cs /\ In x (sel c).
  Proof.
    intros Hsel. induction cs as [|c rest IH]; intros acc x; cbn [big_union].
    - split; [auto | intros [H | [c [[] _]]]; exact H].
    - rewrite IH, Hsel, in_app_iff. split.
      + intros [[H|H] | [d [Hd Hx]]]; [left; exact H | right; exists c; split; [left; reflexivity | exact H] | right; exists d; split; [right; exact Hd | exact Hx]].
      + intros [H | [d [[Hd|Hd] Hx]]]; [left; left; exact H | subst; left; right; exact Hx | right; exists d; split; assumption].
  Qed.

  Lemma big_union_perm cs cs' : Permutation cs cs' -> facts_equiv (big_union (@empty A) cs) (big_union (@empty A) cs').
  Proof.
    intros HP.
    assert (Hin : forall c, In c cs <-> In c cs')
      by (intros c; split; [apply Permutation_in; exact HP | apply Permutation_in; apply Permutation_sym; exact HP]).
    constructor; intros x.
    - rewrite !(big_union_In f_root) by reflexivity. split; intros [H|[c [Hc Hx]]]; try (left; exact H); right; exists c; split; try exact Hx; apply Hin; exact Hc.
    - rewrite !(big_union_In f_unit) by reflexivity. split; intros [H|[c [Hc Hx]]]; try (left; exact H); right; exists c; split; try exact Hx; apply Hin; exact Hc.
    - rewrite !(big_union_In f_leaf) by reflexivity. split; intros [H|[c [Hc Hx]]]; try (left; exact H); right; exists c; split; try exact Hx; apply Hin; exact Hc.
    - rewrite !(big_union_In_rel f_field) by reflexivity. split; intros [H|[c [Hc Hx]]]; try (left; exact H); right; exists c; split; try exact Hx; apply Hin; exact Hc.
    - rewrite !(big_union_In_rel f_variant) by reflexivity. split; intros [H|[c [Hc Hx]]]; try (left; exact H); right; exists c; split; try exact Hx; apply Hin; exact Hc.
    - rewrite !(big_union_In_rel f_type) by reflexivity. split; intros [H|[c [Hc Hx]]]; try (left; exact H); right; exists c; split; try exact Hx; apply Hin; exact Hc.
  Qed.

  (* Visiting the crates in any order gives the same edge set. *)
  Theorem run_crates_order_free fuel fuel' cs cs' R R' :
    Permutation cs cs' ->
    run_crates eqb fuel cs = Some R -> run_crates eqb fuel' cs' = Some R' ->
    same_set R R'.
  Proof.
    intros HP H1 H2 e. rewrite (run_crates_spec _ _ _ H1 e), (run_crates_spec _ _ _ H2 e).
    apply derivable_equiv; [apply big_union_perm; exact HP | intros x; reflexivity].
  Qed.

  (* Processing the crates one at a time gives what one evaluation over all the facts gives. *)
  Theorem run_crates_is_closure fuel fuel' cs R R' :
    run_crates eqb fuel cs = Some R -> closure eqb fuel' (big_union (@empty A) cs) [] = Some R' ->
    same_set R R'.
  Proof.
    intros H1 H2 e. rewrite (run_crates_spec _ _ _ H1 e), (closure_spec _ _ _ _ H2 e). reflexivity.
  Qed.
  (* ---- termination: fuel above |nodes|^2 is always enough *)
  Definition nodes_of_rel (r : rel) : list A := map fst r ++ map snd r.
  Definition universe (F : facts) : list A := f_root F ++ f_leaf F ++ nodes_of_rel (all_rels F).

  Lemma NoDup_snoc (E : rel) n : NoDup E -> ~ In n E -> NoDup (E ++ [n]).
  Proof.
    induction 1 as [|x l Hx Hl IH]; cbn; intros Hn.
    - constructor; [intros [] | constructor].
    - constructor.
      + rewrite in_app_iff. intros [H1|[H1|[]]]; [contradiction | subst; apply Hn; left; reflexivity].
      + apply IH. intros H1. apply Hn. right. exact H1.
  Qed.

  Lemma add_new_NoDup new : forall E, NoDup E -> NoDup (add_new eqb E new).
  Proof.
    unfold add_new. induction new as [|n new IH]; intros E HE; cbn [fold_left]; [exact HE|].
    destruct (mem_edge eqb n E) eqn:Hm; apply IH; [exact HE|].
    apply NoDup_snoc; [exact HE|]. intros Hin. apply mem_edge_In in Hin. congruence.
  Qed.

  Lemma in_nodes_fst (r : rel) x c : In (x, c) r -> In x (nodes_of_rel r) /\ In c (nodes_of_rel r).
  Proof.
    intros H. unfold nodes_of_rel. split; apply in_or_app; [left | right]; apply in_map_iff; exists (x, c); auto.
  Qed.

  Lemma init_incl F V : incl (universe F) V -> incl (init eqb F) (list_prod V V).
  Proof.
    intros HV e He. apply init_In in He as [r [Hr H]].
    assert (Hrv : In r V) by (apply HV; unfold universe; apply in_or_app; left; exact Hr).
    destruct H as [[-> _] | [c [-> Hc]]]; apply in_prod; try exact Hrv.
    apply HV. unfold universe. apply in_or_app. right. apply in_or_app. right.
    destruct Hc as [Hc|Hc]; eapply in_nodes_fst; unfold all_rels; apply in_or_app; [left; exact Hc | right; apply in_or_app; left; exact Hc].
  Qed.

  Lemma derive1_incl F E V : incl (universe F) V -> incl E (list_prod V V) -> incl (derive1 eqb F E) (list_prod V V).
  Proof.
    intros HV HE e He. apply derive1_In in He as [a [x [Hin H]]].
    assert (Hx : In x V) by (apply HE in Hin; apply in_prod_iff in Hin; tauto).
    destruct H as [[_ ->] | [c [Hc ->]]]; apply in_prod; try exact Hx.
    apply HV. unfold universe. apply in_or_app. right. apply in_or_app. right. eapply in_nodes_fst. exact Hc.
  Qed.

  Lemma add_new_incl (E new U : rel) : incl E U -> incl new U -> incl (add_new eqb E new) U.
  Proof. intros H1 H2 e He. apply add_new_In in He as [He|He]; auto. Qed.

  Lemma add_new_length E new : length E <= length (add_new eqb E new).
  Proof. destruct (add_new_shape new E) as [l [Hl _]]. rewrite Hl, app_length. lia. Qed.

  Lemma iterate_terminates F V : incl (universe F) V ->
    forall fuel E, NoDup E -> incl E (list_prod V V) -> length (list_prod V V) - length E < fuel ->
    exists R, iterate eqb fuel F E = Some R /\ NoDup R /\ incl R (list_prod V V).
  Proof.
    intros HV. induction fuel as [|n IH]; intros E Hnd Hinc Hlt; [lia|]. cbn [iterate].
    destruct (Nat.eqb (length (add_new eqb E (derive1 eqb F E))) (length E)) eqn:Hlen.
    - exists E. auto.
    - apply Nat.eqb_neq in Hlen. pose proof (add_new_length E (derive1 eqb F E)) as Hge.
      assert (Hnd' : NoDup (add_new eqb E (derive1 eqb F E))) by (apply add_new_NoDup; exact Hnd).
      assert (Hinc' : incl (add_new eqb E (derive1 eqb F E)) (list_prod V V))
        by (apply add_new_incl; [exact Hinc | apply derive1_incl; assumption]).
      pose proof (NoDup_incl_length Hnd' Hinc') as Hle.
      apply IH; [exact Hnd' | exact Hinc' | lia].
  Qed.

  (* one Filter::run always terminates (with the least fixpoint, by closure_spec) *)
  Theorem closure_terminates F E0 V fuel :
    incl (universe F) V -> NoDup E0 -> incl E0 (list_prod V V) -> length (list_prod V V) < fuel ->
    exists R, closure eqb fuel F E0 = Some R /\ NoDup R /\ incl R (list_prod V V).
  Proof.
    intros HV Hnd Hinc Hlt. unfold closure. apply (iterate_terminates F V HV).
    - apply add_new_NoDup. exact Hnd.
    - apply add_new_incl; [exact Hinc | apply init_incl; exact HV].
    - lia.
  Qed.

  Lemma universe_union F G x : In x (universe (union F G)) <-> In x (universe F) \/ In x (universe G).
  Proof.
    unfold universe, all_rels, nodes_of_rel. cbn [union f_root f_leaf f_field f_variant f_type].
    rewrite !map_app, !in_app_iff. tauto.
  Qed.

  (* and so does the crate-by-crate loop *)
  Theorem run_crates_terminates V fuel : length (list_prod V V) < fuel ->
    forall cs acc E, incl (universe acc) V -> (forall c, In c cs -> incl (universe c) V) ->
    NoDup E -> incl E (list_prod V V) ->
    exists R, visit eqb fuel acc E cs = Some R.
  Proof.
    intros Hlt. induction cs as [|c rest IH]; intros acc E Hacc Hcs Hnd Hinc; cbn [visit]; [eexists; reflexivity|].
    assert (HU : incl (universe (union acc c)) V).
    { intros x Hx. apply universe_union in Hx as [Hx|Hx]; [apply Hacc | apply (Hcs c (or_introl eq_refl))]; exact Hx. }
    destruct (closure_terminates (union acc c) E V fuel HU Hnd Hinc Hlt) as [R [HR [HndR HincR]]].
    rewrite HR. apply IH; try assumption. intros d Hd. apply Hcs. right. exact Hd.
  Qed.

  Lemma same_edges_sound (a b : rel) : same_edges eqb a b = true -> same_set a b.
  Proof.
    unfold same_edges, subset_edges. intros H. apply andb_prop in H as [H1 H2]. rewrite forallb_forall in H1, H2.
    intros e. split; intros He; apply mem_edge_In; [apply H1 | apply H2]; exact He.
  Qed.
End Proofs.
