(* Executable model of the [edge] rules of crux_cli/src/codegen/filter.rs (the Datalog program
   [Filter]) and of the crate-by-crate loop of codegen/mod.rs::run.

   Nodes are compared the way the code compares ItemNodes: by GlobalId.  The model is therefore
   stated over an arbitrary node type with a boolean equality (instantiated with [gid] in
   Properties/C20.v).  The relations the [edge] rules read - [root], [field], [variant],
   [local_type_of] and "is a unit struct" - are inputs: they are dumped from the real Filter by the
   translator, and the closure computed here is compared with the real [edge] relation on every run.

     edge(root, root)    <-- root(root), is_struct(root), if is_struct_unit(&root.item);
     edge(root, field)   <-- root(root), field(root, field);
     edge(root, variant) <-- root(root), variant(root, variant);
     edge(type_, field)  <-- edge(_, type_), field(type_, field);
     edge(type_, variant)<-- edge(_, type_), variant(type_, variant);
     edge(field, type_)  <-- edge(_, field), local_type_of(field, type_);
     edge(root, root)    <-- root(root), is_struct(root), !field(root, _);        [fix: commit 8ae740d]
     edge(type_, type_)  <-- edge(_, type_), is_struct(type_), !field(type_, _);  [fix: commit 8ae740d]

   The negation is stratified: [field] is complete before the [edge] stratum is evaluated, so
   "a struct with no field fact" is an input of the edge rules like the other relations ([f_leaf];
   the translator computes it from the dumped [field] relation, per crate, as the code does).

   ascent evaluates these to the least fixpoint; the order in which it visits facts depends on hash
   iteration order.  [iterate] is one such evaluation (semi-naive in spirit: derive, add what is new,
   stop when nothing is new); the theorems in ClosureProofs.v show that its result is the least
   fixpoint, hence the same set whatever the order of the facts. *)
From Coq Require Import List Bool Arith.
Import ListNotations.

Section Closure.
  Context {A : Type} (eqb : A -> A -> bool).

  Definition rel := list (A * A).

  Record facts := mkFacts {
    f_root : list A;        (* root(x) *)
    f_unit : list A;        (* items that are unit structs *)
    f_leaf : list A;        (* is_struct(x), !field(x, _): structs with no serialisable field *)
    f_field : rel;          (* field(x, f) *)
    f_variant : rel;        (* variant(e, v) *)
    f_type : rel;           (* local_type_of(f, t) *)
  }.

  Definition mem (x : A) (l : list A) : bool := existsb (eqb x) l.
  Definition pair_eqb (a b : A * A) : bool := eqb (fst a) (fst b) && eqb (snd a) (snd b).
  Definition mem_edge (e : A * A) (E : rel) : bool := existsb (pair_eqb e) E.

  (* the second components of the facts of [r] whose first component is [x] *)
  Definition succs (r : rel) (x : A) : list A := map snd (filter (fun p => eqb (fst p) x) r).

  (* the root rules *)
  Definition init (F : facts) : rel :=
    flat_map (fun r => (if mem r (f_unit F) || mem r (f_leaf F) then [(r, r)] else [])
                       ++ map (pair r) (succs (f_field F) r)
                       ++ map (pair r) (succs (f_variant F) r)) (f_root F).

  (* the recursive rules, applied once to every edge of [E] *)
  Definition derive1 (F : facts) (E : rel) : rel :=
    flat_map (fun e => (if mem (snd e) (f_leaf F) then [(snd e, snd e)] else [])
                       ++ map (pair (snd e)) (succs (f_field F ++ f_variant F ++ f_type F) (snd e))) E.

  Definition add_new (E new : rel) : rel :=
    fold_left (fun acc e => if mem_edge e acc then acc else acc ++ [e]) new E.

  Fixpoint iterate (fuel : nat) (F : facts) (E : rel) : option rel :=
    match fuel with
    | O => None
    | S n => let E' := add_new E (derive1 F E) in
             if Nat.eqb (length E') (length E) then Some E else iterate n F E'
    end.

  (* one call of Filter::run with the facts [F], starting from the edges [E0] derived so far *)
  Definition closure (fuel : nat) (F : facts) (E0 : rel) : option rel :=
    iterate fuel F (add_new E0 (init F)).

  (* codegen::run: the crates are processed one after the other; the relations derived for the
     earlier crates stay in the Filter, the new crate's facts are added, and the program is run to
     its fixpoint again *)
  Definition union (F G : facts) : facts :=
    mkFacts (f_root F ++ f_root G) (f_unit F ++ f_unit G) (f_leaf F ++ f_leaf G) (f_field F ++ f_field G)
            (f_variant F ++ f_variant G) (f_type F ++ f_type G).
  Definition empty : facts := mkFacts [] [] [] [] [] [].

  Fixpoint visit (fuel : nat) (acc : facts) (E : rel) (crates : list facts) : option rel :=
    match crates with
    | [] => Some E
    | c :: rest => match closure fuel (union acc c) E with
                   | Some E' => visit fuel (union acc c) E' rest
                   | None => None
                   end
    end.
  Definition run_crates (fuel : nat) (crates : list facts) : option rel := visit fuel empty [] crates.

  (* set comparison of edge lists, for the correspondence check *)
  Definition subset_edges (a b : rel) : bool := forallb (fun e => mem_edge e b) a.
  Definition same_edges (a b : rel) : bool := subset_edges a b && subset_edges b a.
End Closure.
