(* codegen::run as a whole, in terms of the two models: the Filter's edge closure over ids
   (Cli/Closure.v, nodes = GlobalIds) followed by the Formatter (Cli/Format.v) on the edges with
   the items' data attached. *)
From Coq Require Import List String NArith Bool.
From Crux Require Import Cli.Format Cli.Closure.
Import ListNotations.
Open Scope string_scope.
Open Scope list_scope.

Definition gpair (e : item * item) : gid * gid := (it_id (fst e), it_id (snd e)).
Definition is_unit_struct (x : item) : bool := match it_kind x with KStructUnit => true | _ => false end.

(* the Filter's relations, as the translator dumps them (pairs of items), seen as relations over ids *)
Record dump := mkDump {
  d_items : list item;
  d_root : list item;
  d_field : edges;
  d_variant : edges;
  d_type : edges;
}.

Definition gfacts (d : dump) : @facts gid :=
  mkFacts (map it_id (d_root d)) (map it_id (filter is_unit_struct (d_items d)))
          (map gpair (d_field d)) (map gpair (d_variant d)) (map gpair (d_type d)).

(* the part of the facts that one crate contributes (every relation is crate-local) *)
Definition in_crate (c : string) (x : item) : bool := String.eqb (crate_of x) c.
Definition crate_dump (d : dump) (c : string) : dump :=
  mkDump (filter (in_crate c) (d_items d)) (filter (in_crate c) (d_root d))
         (filter (fun e => in_crate c (fst e)) (d_field d))
         (filter (fun e => in_crate c (fst e)) (d_variant d))
         (filter (fun e => in_crate c (fst e)) (d_type d)).

Definition dummy_item : item := mkItem ("", 0%N) None KOther false None None None.
Definition get (tbl : list item) (g : gid) : item :=
  match find (fun x => gid_eqb (it_id x) g) tbl with Some x => x | None => dummy_item end.
Definition edges_of (tbl : list item) (G : list (gid * gid)) : edges :=
  map (fun p => (get tbl (fst p), get tbl (snd p))) G.

Definition fuel_for (d : dump) : nat := S (S (List.length (d_field d) + List.length (d_variant d) + List.length (d_type d))).

(* all crates at once *)
Definition pipeline (d : dump) : option registry :=
  option_map (fun G => format (edges_of (d_items d) G)) (closure gid_eqb (fuel_for d) (gfacts d) []).
(* crate by crate, in the given order *)
Definition pipeline_crates (d : dump) (order : list string) : option registry :=
  option_map (fun G => format (edges_of (d_items d) G))
             (run_crates gid_eqb (fuel_for d) (map (fun c => gfacts (crate_dump d c)) order)).

(* everything the check establishes about one regenerated description, as one decidable predicate:
   the side conditions of the theorems hold, the Formatter model reproduces the registry the code
   returned, and the closure model reproduces the edge relation the code derived - all crates at
   once and crate by crate in two opposite orders *)
Definition closure_matches (r : option (list (gid * gid))) (es : edges) : bool :=
  match r with Some G => same_edges gid_eqb G (map gpair es) | None => false end.
Definition fixture_ok (d : dump) (es : edges) (reg : registry) (crates : list string) : bool :=
  wf_edges es && unambiguousb (containers es) && resolvedb es
  && registry_eqb (format es) reg
  && closure_matches (closure gid_eqb (fuel_for d) (gfacts d) []) es
  && closure_matches (run_crates gid_eqb (fuel_for d) (map (fun c => gfacts (crate_dump d c)) crates)) es
  && closure_matches (run_crates gid_eqb (fuel_for d) (map (fun c => gfacts (crate_dump d c)) (rev crates))) es.
