(* codegen::run as a whole, in terms of the two models: the Filter's edge closure over ids
   (Cli/Closure.v, nodes = GlobalIds) followed by the Formatter (Cli/Format.v) on the edges with
   the items' data attached. *)
From Coq Require Import List String NArith Bool.
From Crux Require Import Cli.Format Cli.Closure.
Import ListNotations.
Open Scope string_scope.
Open Scope list_scope.

Definition gpair (e : item * item) : gid * gid := (it_id (fst e), it_id (snd e)).
Definition is_unit_struct (x : item) : bool := match it_kind x with KStructUnit => true | _ => false end.

(* the Filter's relations, as the translator dumps them (pairs of items), seen as relations over ids *)
Record dump := mkDump {
  d_items : list item;
  d_root : list item;
  d_field : edges;
  d_variant : edges;
  d_type : edges;
}.

Definition is_struct (x : item) : bool :=
  match it_kind x with KStructUnit | KStructPlain _ | KStructTuple _ => true | _ => false end.
(* is_struct(x), !field(x, _) *)
Definition is_leaf (d_field : edges) (x : item) : bool :=
  is_struct x && negb (existsb (fun e => same_item (fst e) x) d_field).

Definition gfacts (d : dump) : @facts gid :=
  mkFacts (map it_id (d_root d)) (map it_id (filter is_unit_struct (d_items d)))
          (map it_id (filter (is_leaf (d_field d)) (d_items d)))
          (map gpair (d_field d)) (map gpair (d_variant d)) (map gpair (d_type d)).

(* the part of the facts that one crate contributes (every relation is crate-local) *)
Definition in_crate (c : string) (x : item) : bool := String.eqb (crate_of x) c.
Definition crate_dump (d : dump) (c : string) : dump :=
  mkDump (filter (in_crate c) (d_items d)) (filter (in_crate c) (d_root d))
         (filter (fun e => in_crate c (fst e)) (d_field d))
         (filter (fun e => in_crate c (fst e)) (d_variant d))
         (filter (fun e => in_crate c (fst e)) (d_type d)).

Definition dummy_item : item := mkItem ("", 0%N) None None KOther false None None None.
Definition get (tbl : list item) (g : gid) : item :=
  match find (fun x => gid_eqb (it_id x) g) tbl with Some x => x | None => dummy_item end.
Definition edges_of (tbl : list item) (G : list (gid * gid)) : edges :=
  map (fun p => (get tbl (fst p), get tbl (snd p))) G.

Definition fuel_for (d : dump) : nat := S (S (List.length (d_field d) + List.length (d_variant d) + List.length (d_type d))).

(* all crates at once *)
Definition pipeline (d : dump) : option registry :=
  option_map (fun G => format (edges_of (d_items d) G)) (closure gid_eqb (fuel_for d) (gfacts d) []).
(* crate by crate, in the given order *)
Definition pipeline_crates (d : dump) (order : list string) : option registry :=
  option_map (fun G => format (edges_of (d_items d) G))
             (run_crates gid_eqb (fuel_for d) (map (fun c => gfacts (crate_dump d c)) order)).

(* everything the check establishes about one regenerated description, as one decidable predicate:
   the side conditions of the theorems hold, the Formatter model reproduces the registry the code
   returned, and the closure model reproduces the edge relation the code derived - all crates at
   once and crate by crate in two opposite orders *)
Definition closure_matches (r : option (list (gid * gid))) (es : edges) : bool :=
  match r with Some G => same_edges gid_eqb G (map gpair es) | None => false end.
Definition fixture_ok (d : dump) (es : edges) (reg : registry) (crates : list string) : bool :=
  wf_edges es && unambiguousb (containers es) && resolvedb es
  && registry_eqb (format es) reg
  && closure_matches (closure gid_eqb (fuel_for d) (gfacts d) []) es
  && closure_matches (run_crates gid_eqb (fuel_for d) (map (fun c => gfacts (crate_dump d c)) crates)) es
  && closure_matches (run_crates gid_eqb (fuel_for d) (map (fun c => gfacts (crate_dump d c)) (rev crates))) es.

(* ---------------------------------------------------------------- the trace predicate and the verdicts *)
(* C20_ok: evaluated on a registry the IMPLEMENTATION returned for a transformed description, given
   the registry it returned for the untransformed one.  Needs no model: equal registries, closedness
   and contiguity are checked on the output. *)
Definition C20_ok (base obs : registry) : bool :=
  registry_eqb obs base && closed_mod_requestb obs && contiguousb obs.
(* the one listed class: no type called Effect, so the fixed Request container dangles *)
Definition known_request_without_effect (obs : registry) : bool := negb (has_key "Effect" obs).
Definition C20_ok_strict (base obs : registry) : bool := C20_ok base obs && closedb obs.

(* verdicts (CONTRIBUTING.md): 0 agree and C20_ok; 1 model <> implementation but C20_ok;
   2 C20_ok fails outside the known classes; 100 + b: fails only inside the known classes whose bits
   are set in b: 1 request_without_effect, 2 name_collision, 4 childless_enum_undefined,
   8 nested_range_undefined, 16 renamed_type_reference *)
Definition verdict_transform (model base : registry) (obs : option registry) : N :=
  match obs with
  | None => 2
  | Some r =>
    if negb (C20_ok base r) then 2
    else if negb (closedb r) && negb (known_request_without_effect r) then 2
    else if negb (registry_eqb model r) then 1
    else if negb (closedb r) then 101 else 0
  end%N.

Definition pick_edges (all : edges) (picks : list nat) : edges := filter_map (nth_error all) picks.
Definition covers (picks : list nat) (n : nat) : bool := forallb (fun i => existsb (Nat.eqb i) picks) (seq 0 n).

(* real [format] on a chosen multiset of the real edges: variant indices must stay contiguous whatever
   is dropped, and a multiset that covers all edges must give the description's registry *)
Definition verdict_edges (all : edges) (base : registry) (picks : list nat) (obs : option registry) : N :=
  match obs with
  | None => 2
  | Some r =>
    if negb (contiguousb r) then 2
    else if covers picks (List.length all) && negb (registry_eqb r base) then 2
    else if registry_eqb (format (pick_edges all picks)) r then 0 else 1
  end%N.

(* the dumped has_field/has_variant flags of the edges against the model's *)
Definition flags_ok (es : edges) (flags : list (bool * bool)) : bool :=
  list_eqb (fun a b => Bool.eqb (fst a) (fst b) && Bool.eqb (snd a) (snd b))
           (map (fun e => (has_field (fst e) (snd e), has_variant (fst e) (snd e))) es) flags.

Definition is_nil {A} (l : list A) : bool := match l with [] => true | _ => false end.
Definition bit (b : bool) (n : N) : N := if b then n else 0%N.

Definition verdict_fixture (app : bool) (d : dump) (es : edges) (flags : list (bool * bool)) (reg : registry) (crates : list string) : N :=
  (if negb (contiguousb reg && closed_mod_requestb reg) then 2
   else if negb (closedb reg) && (app || negb (known_request_without_effect reg)) then 2
   else if negb (fixture_ok d es reg crates && flags_ok es flags) then 1
   else if negb (closedb reg) then 101 else 0)%N.

(* the CLI's registry for a capability crate against the schema traced from the real serde impls *)
Definition verdict_trace (es : edges) (real traced : registry) : N :=
  (if negb (registry_eqb (remove_key "Request" real) traced) then 2
   else if registry_eqb (remove_key "Request" (format es)) traced then 0 else 1)%N.

(* ---------------------------------------------------------------- known classes of undefined references *)
(* the type names a registry uses without defining them (the fixed Request container aside) *)
Definition dangling (r : registry) : list string :=
  flat_map (fun kc => if String.eqb (fst kc) "Request" then []
                      else filter (fun s => negb (has_key s r)) (container_names (snd kc))) r.

Definition is_enum_item (x : item) : bool := match it_kind x with KEnum _ => true | _ => false end.
Definition fmt_mentions (s : string) (f : fmt) : bool := existsb (String.eqb s) (fmt_names f).

(* class childless_enum_undefined: [s] is the Rust name of a reached enum (a candidate item) none of whose variants is
   present (no variants, or all skipped): the container rule for enums needs one variant edge *)
Definition known_childless (cands : list item) (es : edges) (s : string) : bool :=
  existsb (fun t => opt_str_eqb (it_raw t) s && is_enum_item t
                    && negb (existsb (fun e' => same_item (fst e') t && has_variant (fst e') (snd e')) es)) cands.
(* class nested_range_undefined: a present field mentions Range but is not itself a Range field
   (Option<Range<T>>, Vec<Range<T>>, tuples): only direct Range fields produce the Range container *)
Definition known_nested_range (es : edges) (s : string) : bool :=
  String.eqb s "Range"
  && existsb (fun e => has_field (fst e) (snd e)
                       && match it_fmt (snd e), it_range (snd e) with Some f, None => fmt_mentions "Range" f | _, _ => false end) es.
(* class renamed_type_reference: [s] is the Rust name of a reached type whose container is keyed by a
   different serde(rename) name: references are formatted from the path, definitions from name() *)
Definition known_renamed (cands : list item) (s : string) : bool :=
  existsb (fun t => opt_str_eqb (it_raw t) s && negb (opt_str_eqb (it_name t) s)
                    && (is_struct t || is_enum_item t)) cands.
(* the reached types: every item on an edge, and the roots (a root with nothing to serialise has no edge) *)
Definition reached (d : dump) (es : edges) : list item := items_of es ++ d_root d.

(* a synthetic description: the untransformed run (dump, edges, registry) and the registries of the
   transformed runs *)
(* every container of [small] whose name is a key of [big] is that key's container *)
Definition agrees_where_defined (small big : registry) : bool :=
  forallb (fun kc => match lookup (fst kc) big with Some c => container_eqb c (snd kc) | None => true end) small.

(* [serde]: what serde's derive describes for the types of the synthetic description whose shape is
   unambiguous (computed by the harness from the generator's spec, independently of crux_cli) *)
Definition verdict_synth (d : dump) (es : edges) (flags : list (bool * bool)) (base serde : registry) (crates : list string)
                         (obs : list (option registry)) : N :=
  let amb := negb (unambiguousb (containers es)) in
  let all_same := forallb (fun o => match o with Some r => registry_eqb r base | None => false end) obs in
  let dang := dangling base in
  let cands := reached d es in
  let explained := fun s => known_childless cands es s || known_nested_range es s || known_renamed cands s in
  let no_effect := known_request_without_effect base in
  (if negb (contiguousb base) then 2
   else if negb (agrees_where_defined serde base) then 2
   else if negb all_same && negb amb then 2
   else if negb (forallb explained dang) then 2
   else if negb (closedb base) && is_nil dang && negb no_effect then 2
   else if negb (wf_edges es && flags_ok es flags
                 && closure_matches (closure gid_eqb (fuel_for d) (gfacts d) []) es
                 && closure_matches (run_crates gid_eqb (fuel_for d) (map (fun c => gfacts (crate_dump d c)) crates)) es
                 && closure_matches (run_crates gid_eqb (fuel_for d) (map (fun c => gfacts (crate_dump d c)) (rev crates))) es
                 && (amb || registry_eqb (format es) base)) then 1
   else let b := bit (negb (closedb base) && is_nil dang && no_effect) 1 + bit (amb && negb all_same) 2
                 + bit (existsb (known_childless cands es) dang) 4 + bit (existsb (known_nested_range es) dang) 8
                 + bit (existsb (known_renamed cands) dang) 16 in
        if N.eqb b 0 then 0 else 100 + b)%N.
