(* Theorems about the Formatter model (Cli/Format.v), for every edge list. *)
From Coq Require Import List String Ascii NArith Bool Lia Permutation Sorted OrderedTypeEx.
From Crux Require Import Cli.Format.
Import ListNotations.
Open Scope string_scope.
Open Scope list_scope.

(* ================================================================ strings: the order of the BTreeMap *)
Definition slt (a b : string) : Prop := String.compare a b = Lt.

Lemma slt_trans a b c : slt a b -> slt b c -> slt a c.
Proof.
  unfold slt. intros H1 H2. apply String_as_OT.cmp_lt in H1. apply String_as_OT.cmp_lt in H2.
  apply String_as_OT.cmp_lt. eapply String_as_OT.lt_trans; eassumption.
Qed.
Lemma slt_irrefl a : ~ slt a a.
Proof.
  unfold slt. intros H. assert (E : String_as_OT.cmp a a = Eq) by (apply String_as_OT.cmp_eq; reflexivity). unfold String_as_OT.cmp in E. congruence.
Qed.
Lemma compare_gt_lt a b : String.compare a b = Gt -> slt b a.
Proof. unfold slt. intros H. rewrite String.compare_antisym. rewrite H. reflexivity. Qed.
Lemma compare_eq a b : String.compare a b = Eq -> a = b.
Proof. apply String.compare_eq_iff. Qed.

Lemma eqb_false_of_slt a b : slt a b -> String.eqb a b = false.
Proof. intros H. apply String.eqb_neq. intros ->. exact (slt_irrefl _ H). Qed.

(* ================================================================ build: lookup semantics, canonicity *)
Definition key_lt (a b : string * container) : Prop := slt (fst a) (fst b).
Definition sorted (m : registry) : Prop := StronglySorted key_lt m.

Lemma lookup_insert k v m x :
  lookup x (insert k v m) = if String.eqb x k then Some v else lookup x m.
Proof.
  induction m as [|[k' v'] m IH]; cbn [insert lookup]; [reflexivity|].
  destruct (String.compare k k') eqn:Hc; cbn [lookup].
  - apply compare_eq in Hc. subst k'. destruct (String.eqb x k); reflexivity.
  - reflexivity.
  - rewrite IH. destruct (String.eqb x k') eqn:E1; [|reflexivity].
    apply String.eqb_eq in E1. subst x.
    rewrite (proj2 (String.eqb_neq k' k)); [reflexivity|].
    intros ->. apply compare_gt_lt in Hc. exact (slt_irrefl _ Hc).
Qed.

Lemma insert_In k v m e : In e (insert k v m) -> e = (k, v) \/ In e m.
Proof.
  induction m as [|[k' v'] m IH]; cbn [insert]; [intros [H|[]]; left; congruence|].
  destruct (String.compare k k'); cbn [In].
  - intros [H|H]; [left; congruence | right; right; exact H].
  - intros [H|[H|H]]; [left; congruence | right; left; exact H | right; right; exact H].
  - intros [H|H]; [right; left; exact H|]. apply IH in H as [H|H]; [left; exact H | right; right; exact H].
Qed.

Lemma insert_sorted k v m : sorted m -> sorted (insert k v m).
Proof.
  unfold sorted. induction m as [|[k' v'] m IH]; cbn [insert]; intros Hs.
  - constructor; constructor.
  - apply StronglySorted_inv in Hs as [Hs Hall].
    destruct (String.compare k k') eqn:Hc.
    + apply compare_eq in Hc. subst k'. constructor; assumption.
    + constructor; [constructor; assumption|]. constructor; [exact Hc|].
      eapply Forall_impl; [|exact Hall]. intros a Ha. unfold key_lt in *. cbn [fst] in *. eapply slt_trans; eassumption.
    + constructor; [apply IH; exact Hs|].
      apply Forall_forall. intros e He. apply insert_In in He as [He|He].
      * subst e. unfold key_lt. cbn [fst]. apply compare_gt_lt. exact Hc.
      * rewrite Forall_forall in Hall. apply Hall. exact He.
Qed.

Definition ins (m : registry) (kv : string * container) : registry := insert (fst kv) (snd kv) m.

Lemma fold_ins_sorted l : forall m, sorted m -> sorted (fold_left ins l m).
Proof. induction l as [|kv l IH]; intros m Hm; cbn [fold_left]; [exact Hm|]. apply IH. apply insert_sorted. exact Hm. Qed.

Lemma build_sorted l : sorted (build l).
Proof. apply fold_ins_sorted. constructor. Qed.

Lemma fold_ins_lookup l : forall m x,
  lookup x (fold_left ins l m) = match lookup x (rev l) with Some v => Some v | None => lookup x m end.
Proof.
  induction l as [|[k v] l IH]; intros m x; cbn [fold_left rev]; [reflexivity|].
  rewrite IH. unfold ins. cbn [fst snd]. rewrite lookup_insert.
  assert (Happ : forall a b, lookup x (a ++ b) = match lookup x a with Some w => Some w | None => lookup x b end).
  { induction a as [|[k1 v1] a IHa]; intros b; cbn [app lookup]; [reflexivity|]. destruct (String.eqb x k1); [reflexivity | apply IHa]. }
  rewrite Happ. cbn [lookup]. destruct (lookup x (rev l)); [reflexivity|]. destruct (String.eqb x k); reflexivity.
Qed.

(* last writer wins *)
Lemma build_lookup l x : lookup x (build l) = lookup x (rev l).
Proof. unfold build. change (fun m kv => insert (fst kv) (snd kv) m) with ins. rewrite fold_ins_lookup. destruct (lookup x (rev l)); reflexivity. Qed.

Lemma fold_ins_In l : forall m e, In e (fold_left ins l m) -> In e l \/ In e m.
Proof.
  induction l as [|kv l IH]; intros m e He; cbn [fold_left] in He; [right; exact He|].
  apply IH in He as [He|He]; [left; right; exact He|].
  unfold ins in He. apply insert_In in He as [He|He]; [left; left; destruct kv; exact (eq_sym He) | right; exact He].
Qed.

Lemma build_In l e : In e (build l) -> In e l.
Proof. intros H. apply fold_ins_In in H as [H|[]]. exact H. Qed.

Lemma lookup_In m k v : lookup k m = Some v -> In (k, v) m.
Proof.
  induction m as [|[k' v'] m IH]; cbn [lookup]; [discriminate|].
  destruct (String.eqb k k') eqn:E; [apply String.eqb_eq in E; subst; intros H; inversion H; left; reflexivity | intros H; right; apply IH; exact H].
Qed.

Lemma In_lookup m k v : In (k, v) m -> exists v', lookup k m = Some v'.
Proof.
  induction m as [|[k' v'] m IH]; cbn [lookup In]; [intros []|].
  intros [H|H].
  - inversion H; subst. rewrite String.eqb_refl. eexists; reflexivity.
  - destruct (String.eqb k k'); [eexists; reflexivity | apply IH; exact H].
Qed.

Lemma lookup_none_above k m : Forall (fun e => slt k (fst e)) m -> lookup k m = None.
Proof.
  induction m as [|[k' v'] m IH]; intros H; cbn [lookup]; [reflexivity|].
  inversion H as [|? ? H1 H2]; subst. cbn [fst] in H1. rewrite (eqb_false_of_slt _ _ H1). apply IH. exact H2.
Qed.

(* two strictly sorted association lists with the same lookup function are the same list *)
Lemma sorted_ext : forall m m', sorted m -> sorted m' -> (forall k, lookup k m = lookup k m') -> m = m'.
Proof.
  unfold sorted. induction m as [|[k v] m IH]; intros [|[k' v'] m'] Hs Hs' Hl.
  - reflexivity.
  - specialize (Hl k'). cbn [lookup] in Hl. rewrite String.eqb_refl in Hl. discriminate.
  - specialize (Hl k). cbn [lookup] in Hl. rewrite String.eqb_refl in Hl. discriminate.
  - apply StronglySorted_inv in Hs as [Hs Hall]. apply StronglySorted_inv in Hs' as [Hs' Hall'].
    assert (Hall2 : Forall (fun e => slt k (fst e)) m) by exact Hall.
    assert (Hall2' : Forall (fun e => slt k' (fst e)) m') by exact Hall'.
    assert (Hk : k = k').
    { destruct (String.compare k k') eqn:Hc.
      - apply compare_eq. exact Hc.
      - exfalso. pose proof (Hl k) as H. cbn [lookup] in H. rewrite String.eqb_refl in H.
        rewrite (eqb_false_of_slt _ _ Hc) in H.
        rewrite lookup_none_above in H; [discriminate|].
        eapply Forall_impl; [|exact Hall2']. intros a Ha. eapply slt_trans; [exact Hc | exact Ha].
      - exfalso. apply compare_gt_lt in Hc. pose proof (Hl k') as H. cbn [lookup] in H. rewrite String.eqb_refl in H.
        rewrite (eqb_false_of_slt _ _ Hc) in H.
        rewrite lookup_none_above in H; [discriminate|].
        eapply Forall_impl; [|exact Hall2]. intros a Ha. eapply slt_trans; [exact Hc | exact Ha]. }
    subst k'.
    assert (Hv : v = v').
    { pose proof (Hl k) as H. cbn [lookup] in H. rewrite String.eqb_refl in H. congruence. }
    subst v'. f_equal. apply IH; [exact Hs | exact Hs' |].
    intros x. destruct (String.eqb x k) eqn:E.
    + apply String.eqb_eq in E. subst x. rewrite !lookup_none_above; [reflexivity | exact Hall2' | exact Hall2].
    + pose proof (Hl x) as H. cbn [lookup] in H. rewrite E in H. exact H.
Qed.

Definition same_set {B} (l l' : list B) : Prop := forall x, In x l <-> In x l'.
(* no two different containers carry the same name *)
Definition unambiguous (l : list (string * container)) : Prop :=
  forall k v v', In (k, v) l -> In (k, v') l -> v = v'.

Lemma build_set_invariant l l' : same_set l l' -> unambiguous l -> build l = build l'.
Proof.
  intros Hs Hu. apply sorted_ext; try apply build_sorted.
  intros k. rewrite !build_lookup.
  destruct (lookup k (rev l)) as [v|] eqn:E1; destruct (lookup k (rev l')) as [v'|] eqn:E2.
  - apply lookup_In in E1. apply lookup_In in E2. apply in_rev in E1. apply in_rev in E2.
    apply Hs in E2. f_equal. eapply Hu; eassumption.
  - exfalso. apply lookup_In in E1. apply in_rev in E1. apply Hs in E1. apply in_rev in E1.
    apply In_lookup in E1 as [w Hw]. congruence.
  - exfalso. apply lookup_In in E2. apply in_rev in E2. apply Hs in E2. apply in_rev in E2.
    apply In_lookup in E2 as [w Hw]. congruence.
  - reflexivity.
Qed.

Lemma build_has_key l k v : In (k, v) l -> has_key k (build l) = true.
Proof.
  intros H. unfold has_key. rewrite build_lookup. apply in_rev in H. apply In_lookup in H as [w Hw]. rewrite Hw. reflexivity.
Qed.

(* ================================================================ invariance under reordering of the edges *)
(* an id names one item (ItemNode equality is equality of ids) *)
Definition fun_ids (es : edges) : Prop :=
  forall a b, In a (items_of es) -> In b (items_of es) -> same_item a b = true -> a = b.

Lemma items_of_In es x : In x (items_of es) <-> exists e, In e es /\ (x = fst e \/ x = snd e).
Proof.
  unfold items_of. rewrite in_flat_map. split.
  - intros [e [He [H|[H|[]]]]]; exists e; split; auto.
  - intros [e [He [H|H]]]; exists e; split; auto; subst; cbn; auto.
Qed.

Lemma same_set_items es es' : same_set es es' -> same_set (items_of es) (items_of es').
Proof.
  intros Hs x. rewrite !items_of_In. split; intros [e [He H]]; exists e; split; auto; apply Hs; exact He.
Qed.

Lemma fun_ids_same_set es es' : same_set es es' -> fun_ids es -> fun_ids es'.
Proof.
  intros Hs Hf a b Ha Hb. apply (same_set_items _ _ Hs) in Ha. apply (same_set_items _ _ Hs) in Hb. apply Hf; assumption.
Qed.

Lemma filter_map_In {A B} (f : A -> option B) l b : In b (filter_map f l) <-> exists a, In a l /\ f a = Some b.
Proof.
  induction l as [|a l IH]; cbn [filter_map].
  - split; [intros [] | intros [a [[] _]]].
  - destruct (f a) eqn:E; cbn [In]; rewrite IH; split.
    + intros [H|[a' [H1 H2]]]; [exists a; split; [left; reflexivity | congruence] | exists a'; split; [right; exact H1 | exact H2]].
    + intros [a' [[H1|H1] H2]]; [subst; left; congruence | right; exists a'; split; assumption].
    + intros [a' [H1 H2]]. exists a'. split; [right; exact H1 | exact H2].
    + intros [a' [[H1|H1] H2]]; [subst; congruence | exists a'; split; assumption].
Qed.

Lemma filter_map_map {A B C} (f : B -> option C) (g : A -> B) l :
  filter_map f (map g l) = filter_map (fun a => f (g a)) l.
Proof. induction l as [|a l IH]; cbn; [reflexivity|]. rewrite IH. reflexivity. Qed.

Lemma filter_map_ext_in {A B} (f g : A -> option B) l :
  (forall a, In a l -> f a = g a) -> filter_map f l = filter_map g l.
Proof.
  induction l as [|a l IH]; intros H; cbn; [reflexivity|].
  rewrite (H a (or_introl eq_refl)). rewrite IH; [reflexivity|]. intros b Hb. apply H. right. exact Hb.
Qed.

Lemma children_In rel x es c :
  In c (children rel x es) <->
  exists e, In e es /\ snd e = c /\ same_item (fst e) x = true /\ rel (fst e) (snd e) = true.
Proof.
  unfold children. rewrite in_map_iff. split.
  - intros [e [Hc Hf]]. apply filter_In in Hf as [Hin Hb]. apply andb_prop in Hb as [H1 H2]. exists e. auto.
  - intros [e [Hin [Hc [H1 H2]]]]. exists e. split; [exact Hc|]. apply filter_In. split; [exact Hin|]. rewrite H1, H2. reflexivity.
Qed.

Lemma children_same_set rel x es es' : same_set es es' -> same_set (children rel x es) (children rel x es').
Proof.
  intros Hs c. rewrite !children_In. split; intros [e [He H]]; exists e; split; auto; apply Hs; exact He.
Qed.

Lemma find_ext {A} (p : A -> bool) l l' :
  (forall a b, In a l -> In b l -> p a = true -> p b = true -> a = b) ->
  same_set l l' -> find p l = find p l'.
Proof.
  intros Hu Hs. destruct (find p l) as [a|] eqn:E1; destruct (find p l') as [b|] eqn:E2.
  - apply find_some in E1 as [Ha Hpa]. apply find_some in E2 as [Hb Hpb]. apply Hs in Hb. f_equal. apply Hu; assumption.
  - apply find_some in E1 as [Ha Hpa]. apply Hs in Ha. pose proof (find_none _ _ E2 _ Ha). congruence.
  - apply find_some in E2 as [Hb Hpb]. apply Hs in Hb. pose proof (find_none _ _ E1 _ Hb). congruence.
  - reflexivity.
Qed.

Lemma pick_ext ids cs cs' :
  (forall a b, In a cs -> In b cs -> lid a = lid b -> a = b) ->
  same_set cs cs' -> pick ids cs = pick ids cs'.
Proof.
  intros Hu Hs. unfold pick. apply filter_map_ext_in. intros id _. apply find_ext; [|exact Hs].
  intros a b Ha Hb Hpa Hpb. apply andb_prop in Hpa as [_ Hpa]. apply andb_prop in Hpb as [_ Hpb].
  apply N.eqb_eq in Hpa. apply N.eqb_eq in Hpb. apply Hu; congruence.
Qed.

Definition rel_same_crate (rel : item -> item -> bool) : Prop :=
  forall x c, rel x c = true -> crate_of x = crate_of c.

Lemma has_field_same_crate : rel_same_crate has_field.
Proof.
  intros x c H. unfold has_field in H. apply andb_prop in H as [H _]. apply andb_prop in H as [H _].
  apply andb_prop in H as [H _]. apply String.eqb_eq. exact H.
Qed.
Lemma has_variant_same_crate : rel_same_crate has_variant.
Proof.
  intros x c H. unfold has_variant in H. apply andb_prop in H as [H _]. apply andb_prop in H as [H _].
  apply String.eqb_eq. exact H.
Qed.

Lemma same_item_iff a b : same_item a b = true <-> it_id a = it_id b.
Proof.
  unfold same_item, gid_eqb. destruct (it_id a) as [c n], (it_id b) as [c' n']. cbn [fst snd].
  rewrite andb_true_iff, String.eqb_eq, N.eqb_eq. split; [intros [-> ->]; reflexivity | intros H; inversion H; auto].
Qed.

Lemma same_item_crate a b : same_item a b = true -> crate_of a = crate_of b.
Proof. intros H. apply same_item_iff in H. unfold crate_of. rewrite H. reflexivity. Qed.

Lemma children_crate rel x es c : rel_same_crate rel -> In c (children rel x es) -> crate_of c = crate_of x.
Proof.
  intros Hr Hc. apply children_In in Hc as [e [_ [He [H1 H2]]]]. subst c.
  apply Hr in H2. apply same_item_crate in H1. congruence.
Qed.

Lemma children_items rel x es c : In c (children rel x es) -> In c (items_of es).
Proof.
  intros Hc. apply children_In in Hc as [e [He [Hs _]]]. apply items_of_In. exists e. split; [exact He | right; congruence].
Qed.

Lemma children_uniq rel x es : rel_same_crate rel -> fun_ids es ->
  forall a b, In a (children rel x es) -> In b (children rel x es) -> lid a = lid b -> a = b.
Proof.
  intros Hr Hf a b Ha Hb Hl. apply Hf; try (eapply children_items; eassumption).
  apply same_item_iff. pose proof (children_crate _ _ _ _ Hr Ha) as Ca. pose proof (children_crate _ _ _ _ Hr Hb) as Cb.
  unfold crate_of, lid in *. destruct (it_id a), (it_id b). cbn in *. congruence.
Qed.

Section Reorder.
  Variables es es' : edges.
  Hypothesis Hfun : fun_ids es.
  Hypothesis Hset : same_set es es'.

  Lemma fields_ext x : fields x es = fields x es'.
  Proof.
    unfold fields. apply pick_ext; [apply children_uniq; [apply has_field_same_crate | exact Hfun] | apply children_same_set; exact Hset].
  Qed.
  Lemma variants_ext x : variants x es = variants x es'.
  Proof.
    unfold variants. apply pick_ext; [apply children_uniq; [apply has_variant_same_crate | exact Hfun] | apply children_same_set; exact Hset].
  Qed.
  Lemma plain_fmts_ext x : plain_fmts x es = plain_fmts x es'.
  Proof. unfold plain_fmts. rewrite fields_ext. reflexivity. Qed.
  Lemma named_fmts_ext x : named_fmts x es = named_fmts x es'.
  Proof. unfold named_fmts. rewrite fields_ext. reflexivity. Qed.
  Lemma variant_fmt_ext v : variant_fmt v es = variant_fmt v es'.
  Proof. unfold variant_fmt. rewrite plain_fmts_ext, named_fmts_ext. reflexivity. Qed.
  Lemma enum_entries_ext vs : forall i, enum_entries i vs es = enum_entries i vs es'.
  Proof. induction vs as [|v vs IH]; intros i; cbn [enum_entries]; [reflexivity|]. rewrite variant_fmt_ext, IH. reflexivity. Qed.

  Lemma container_of_ext x : container_of x es = container_of x es'.
  Proof.
    unfold container_of. rewrite named_fmts_ext, plain_fmts_ext, variants_ext, enum_entries_ext.
    destruct (it_name x); [|reflexivity]. destruct (it_kind x); try reflexivity.
    pose proof (children_same_set has_variant x _ _ Hset) as Hc.
    destruct (children has_variant x es) as [|a l] eqn:E1; destruct (children has_variant x es') as [|b l'] eqn:E2; try reflexivity.
    - exfalso. apply (Hc b). left. reflexivity.
    - exfalso. apply (Hc a). left. reflexivity.
  Qed.

  Lemma containers_same_set : same_set (containers es) (containers es').
  Proof.
    intros kc. unfold containers, derived_containers. rewrite !in_app_iff, !in_flat_map. unfold range_containers. rewrite !filter_map_In.
    split; (intros [[[e [He Hk]] | [e [He Hk]]] | Hk]; [left; left; exists e; split; [apply Hset; exact He|] | left; right; exists e; split; [apply Hset; exact He | exact Hk] | right; exact Hk]).
    - rewrite <- container_of_ext. exact Hk.
    - rewrite container_of_ext. exact Hk.
  Qed.

  (* The registry does not depend on the order (or multiplicity) of the edges, provided no two
     different containers carry the same name. *)
  Theorem format_set_invariant : unambiguous (containers es) -> format es = format es'.
  Proof. intros Hu. unfold format. apply build_set_invariant; [apply containers_same_set | exact Hu]. Qed.
End Reorder.

Lemma perm_same_set {B} (l l' : list B) : Permutation l l' -> same_set l l'.
Proof. intros H x. split; apply Permutation_in; [exact H | apply Permutation_sym; exact H]. Qed.

Theorem format_perm_invariant es es' :
  Permutation es es' -> fun_ids es -> unambiguous (containers es) -> format es = format es'.
Proof. intros HP Hf Hu. apply format_set_invariant; [exact Hf | apply perm_same_set; exact HP | exact Hu]. Qed.

(* ================================================================ invariance under renumbering of the ids *)
Lemma filter_map_comm {A B} (p : B -> bool) (g : A -> B) l :
  filter p (map g l) = map g (filter (fun a => p (g a)) l).
Proof. induction l as [|a l IH]; cbn; [reflexivity|]. destruct (p (g a)); cbn; rewrite IH; reflexivity. Qed.

Lemma find_map {A B} (p : B -> bool) (g : A -> B) l :
  find p (map g l) = option_map g (find (fun a => p (g a)) l).
Proof. induction l as [|a l IH]; cbn; [reflexivity|]. destruct (p (g a)); [reflexivity | exact IH]. Qed.

Lemma find_ext_in {A} (p q : A -> bool) l : (forall a, In a l -> p a = q a) -> find p l = find q l.
Proof.
  induction l as [|a l IH]; intros H; cbn; [reflexivity|]. rewrite (H a (or_introl eq_refl)).
  destruct (q a); [reflexivity|]. apply IH. intros b Hb. apply H. right. exact Hb.
Qed.

Lemma filter_ext_in' {A} (p q : A -> bool) l : (forall a, In a l -> p a = q a) -> filter p l = filter q l.
Proof.
  induction l as [|a l IH]; intros H; cbn; [reflexivity|]. rewrite (H a (or_introl eq_refl)).
  rewrite IH; [reflexivity|]. intros b Hb. apply H. right. exact Hb.
Qed.

Lemma filter_map_option_map {A B C} (F : A -> option B) (g : B -> C) l :
  filter_map (fun a => option_map g (F a)) l = map g (filter_map F l).
Proof. induction l as [|a l IH]; cbn; [reflexivity|]. destruct (F a); cbn; rewrite IH; reflexivity. Qed.

Lemma flat_map_map {A B C} (f : B -> list C) (g : A -> B) l : flat_map f (map g l) = flat_map (fun a => f (g a)) l.
Proof. induction l as [|a l IH]; cbn; [reflexivity|]. rewrite IH. reflexivity. Qed.

Lemma flat_map_ext_in {A B} (f g : A -> list B) l : (forall a, In a l -> f a = g a) -> flat_map f l = flat_map g l.
Proof.
  induction l as [|a l IH]; intros H; cbn; [reflexivity|]. rewrite (H a (or_introl eq_refl)).
  rewrite IH; [reflexivity|]. intros b Hb. apply H. right. exact Hb.
Qed.

Section Renumber.
  Variable rho : renum.
  Hypothesis rho_inj : forall c a b, rho c a = rho c b -> a = b.
  Notation rn := (rename_item rho).
  Notation rne := (rename_edges rho).

  Lemma rn_crate x : crate_of (rn x) = crate_of x.
  Proof. reflexivity. Qed.
  Lemma rn_lid x : lid (rn x) = rho (crate_of x) (lid x).
  Proof. reflexivity. Qed.

  Lemma rho_eqb c a b : N.eqb (rho c a) (rho c b) = N.eqb a b.
  Proof.
    destruct (N.eqb a b) eqn:E.
    - apply N.eqb_eq in E. subst. apply N.eqb_refl.
    - apply N.eqb_neq. intros H. apply rho_inj in H. apply N.eqb_neq in E. contradiction.
  Qed.

  Lemma rn_same_item a b : same_item (rn a) (rn b) = same_item a b.
  Proof.
    unfold same_item, gid_eqb. cbn [rename_item it_id fst snd].
    change (fst (it_id a)) with (crate_of a). change (fst (it_id b)) with (crate_of b).
    change (snd (it_id a)) with (lid a). change (snd (it_id b)) with (lid b).
    destruct (String.eqb (crate_of a) (crate_of b)) eqn:E; [|rewrite !andb_false_r; reflexivity].
    apply String.eqb_eq in E. rewrite E. rewrite rho_eqb. reflexivity.
  Qed.

  Lemma existsb_rho c n ids : existsb (N.eqb (rho c n)) (map (rho c) ids) = existsb (N.eqb n) ids.
  Proof. induction ids as [|i ids IH]; cbn; [reflexivity|]. rewrite rho_eqb, IH. reflexivity. Qed.

  Lemma rn_field_ids x : field_ids (rn x) = map (rho (crate_of x)) (field_ids x).
  Proof. unfold field_ids. cbn [rename_item it_kind]. destruct (it_kind x); reflexivity. Qed.
  Lemma rn_variant_ids x : variant_ids (rn x) = map (rho (crate_of x)) (variant_ids x).
  Proof. unfold variant_ids. cbn [rename_item it_kind]. destruct (it_kind x); reflexivity. Qed.

  Lemma rn_has_field x f : has_field (rn x) (rn f) = has_field x f.
  Proof.
    unfold has_field. rewrite !rn_crate, rn_field_ids, rn_lid. cbn [rename_item it_skip it_name].
    destruct (String.eqb (crate_of x) (crate_of f)) eqn:E; [|reflexivity].
    apply String.eqb_eq in E. rewrite <- E. rewrite existsb_rho. reflexivity.
  Qed.
  Lemma rn_has_variant x f : has_variant (rn x) (rn f) = has_variant x f.
  Proof.
    unfold has_variant. rewrite !rn_crate, rn_variant_ids, rn_lid. cbn [rename_item it_skip].
    destruct (String.eqb (crate_of x) (crate_of f)) eqn:E; [|reflexivity].
    apply String.eqb_eq in E. rewrite <- E. rewrite existsb_rho. reflexivity.
  Qed.

  Lemma rn_children rel x es : (forall a b, rel (rn a) (rn b) = rel a b) ->
    children rel (rn x) (rne es) = map rn (children rel x es).
  Proof.
    intros Hr. unfold children, rename_edges. rewrite filter_map_comm. rewrite !map_map. cbn [fst snd].
    f_equal. apply filter_ext_in'. intros e _. cbn [fst snd]. rewrite rn_same_item, Hr. reflexivity.
  Qed.

  Lemma rn_pick c ids cs : (forall y, In y cs -> crate_of y = c) ->
    pick (map (rho c) ids) (map rn cs) = map rn (pick ids cs).
  Proof.
    intros Hc. unfold pick. rewrite filter_map_map. rewrite <- filter_map_option_map.
    apply filter_map_ext_in. intros id _. rewrite find_map. f_equal.
    apply find_ext_in. intros y Hy. cbn [rename_item it_skip]. rewrite rn_lid, (Hc y Hy), rho_eqb. reflexivity.
  Qed.

  Lemma rn_fields x es : fields (rn x) (rne es) = map rn (fields x es).
  Proof.
    unfold fields. rewrite rn_field_ids, (rn_children has_field x es rn_has_field). apply rn_pick.
    intros y Hy. eapply children_crate; [apply has_field_same_crate | exact Hy].
  Qed.
  Lemma rn_variants x es : variants (rn x) (rne es) = map rn (variants x es).
  Proof.
    unfold variants. rewrite rn_variant_ids, (rn_children has_variant x es rn_has_variant). apply rn_pick.
    intros y Hy. eapply children_crate; [apply has_variant_same_crate | exact Hy].
  Qed.

  Lemma rn_plain_fmts x es : plain_fmts (rn x) (rne es) = plain_fmts x es.
  Proof. unfold plain_fmts. rewrite rn_fields, filter_map_map. reflexivity. Qed.
  Lemma rn_named_fmts x es : named_fmts (rn x) (rne es) = named_fmts x es.
  Proof. unfold named_fmts. rewrite rn_fields, filter_map_map. reflexivity. Qed.

  Lemma rn_variant_fmt v es : variant_fmt (rn v) (rne es) = variant_fmt v es.
  Proof.
    unfold variant_fmt. rewrite rn_plain_fmts, rn_named_fmts. cbn [rename_item it_wire it_kind].
    destruct (it_wire v); [|reflexivity]. destruct (it_kind v); reflexivity.
  Qed.

  Lemma rn_enum_entries vs es : forall i, enum_entries i (map rn vs) (rne es) = enum_entries i vs es.
  Proof. induction vs as [|v vs IH]; intros i; cbn [map enum_entries]; [reflexivity|]. rewrite rn_variant_fmt, IH. reflexivity. Qed.

  Lemma rn_container_of x es : container_of (rn x) (rne es) = container_of x es.
  Proof.
    unfold container_of. rewrite rn_named_fmts, rn_plain_fmts, rn_variants, rn_enum_entries,
      (rn_children has_variant x es rn_has_variant).
    cbn [rename_item it_name it_kind]. destruct (it_name x); [|reflexivity].
    destruct (it_kind x); cbn [rename_kind]; try reflexivity.
    destruct (children has_variant x es); reflexivity.
  Qed.

  Lemma rn_containers es : containers (rne es) = containers es.
  Proof.
    unfold containers, derived_containers. f_equal. f_equal.
    - unfold rename_edges at 2. rewrite flat_map_map. apply flat_map_ext_in. intros e _. cbn [fst]. apply rn_container_of.
    - unfold range_containers, rename_edges. rewrite filter_map_map. apply filter_map_ext_in. intros e _.
      cbn [fst snd]. rewrite rn_has_field. reflexivity.
  Qed.

  (* The registry does not depend on how rustdoc numbered the items: any renumbering that is
     injective within each crate, applied to every id and every reference to it, gives the same
     registry (no side condition on names: the order of the container relation is unaffected). *)
  Theorem format_renumber_invariant es : format (rne es) = format es.
  Proof. unfold format. rewrite rn_containers. reflexivity. Qed.
End Renumber.

(* ================================================================ variant indices *)
Lemma pick_In ids cs c : In c (pick ids cs) -> In c cs /\ it_skip c = false /\ In (lid c) ids.
Proof.
  unfold pick. rewrite filter_map_In. intros [id [Hid Hf]]. apply find_some in Hf as [Hc Hp].
  apply andb_prop in Hp as [Hs Hl]. apply N.eqb_eq in Hl. subst id.
  split; [exact Hc|]. split; [|exact Hid]. destruct (it_skip c); [discriminate | reflexivity].
Qed.

(* the members of [variants]/[fields] appear in declaration order: their ids are the declared
   ids, filtered by presence *)
Lemma pick_decl_order ids cs :
  map lid (pick ids cs) = filter (fun id => existsb (fun c => negb (it_skip c) && N.eqb id (lid c)) cs) ids.
Proof.
  unfold pick. induction ids as [|id ids IH]; cbn [filter_map filter map]; [reflexivity|].
  destruct (find (fun c => negb (it_skip c) && N.eqb id (lid c)) cs) as [c|] eqn:E.
  - pose proof (find_some _ _ E) as [Hc Hp].
    assert (Hex : existsb (fun c => negb (it_skip c) && N.eqb id (lid c)) cs = true) by (apply existsb_exists; exists c; auto).
    rewrite Hex. cbn [map]. rewrite IH. f_equal. apply andb_prop in Hp as [_ Hl]. apply N.eqb_eq in Hl. congruence.
  - assert (Hex : existsb (fun c => negb (it_skip c) && N.eqb id (lid c)) cs = false).
    { destruct (existsb _ cs) eqn:Ex; [|reflexivity]. apply existsb_exists in Ex as [c [Hc Hp]].
      pose proof (find_none _ _ E _ Hc). cbn in *. congruence. }
    rewrite Hex. exact IH.
Qed.

Lemma variants_In x es v : In v (variants x es) ->
  exists e, In e es /\ snd e = v /\ has_variant (fst e) (snd e) = true.
Proof.
  unfold variants. intros H. apply pick_In in H as [H _]. apply children_In in H as [e [He [Hs [_ Hr]]]]. exists e. auto.
Qed.
Lemma fields_In x es f : In f (fields x es) ->
  exists e, In e es /\ snd e = f /\ has_field (fst e) (snd e) = true.
Proof.
  unfold fields. intros H. apply pick_In in H as [H _]. apply children_In in H as [e [He [Hs [_ Hr]]]]. exists e. auto.
Qed.

(* the payloads of an enum container are the formats of [variants] in order *)
Lemma enum_entries_payload vs es : forall i,
  map snd (enum_entries i vs es) = filter_map (fun v => variant_fmt v es) vs.
Proof.
  induction vs as [|v vs IH]; intros i; cbn [enum_entries filter_map]; [reflexivity|].
  destruct (variant_fmt v es); cbn [map]; rewrite IH; reflexivity.
Qed.

Lemma enum_entries_keys vs es : (forall v, In v vs -> variant_fmt v es <> None) ->
  forall i, keys_from i (enum_entries i vs es) = true.
Proof.
  induction vs as [|v vs IH]; intros H i; cbn [enum_entries]; [reflexivity|].
  destruct (variant_fmt v es) as [nv|] eqn:E; [|exfalso; apply (H v (or_introl eq_refl)); exact E].
  cbn [keys_from]. rewrite N.eqb_refl. cbn. apply IH. intros w Hw. apply H. right. exact Hw.
Qed.

Definition wf_variants (es : edges) : Prop :=
  forall e, In e es -> has_variant (fst e) (snd e) = true ->
    match it_kind (snd e), it_wire (snd e) with
    | (KVariantPlain | KVariantTuple _ | KVariantStruct _), Some _ => True
    | _, _ => False
    end.
Definition wf_ranges (es : edges) : Prop :=
  forall e, In e es -> match it_range (snd e) with Some (CStruct _) | None => True | Some _ => False end.

Lemma wf_edges_variants es : wf_edges es = true -> wf_variants es.
Proof.
  unfold wf_edges. intros H. apply andb_prop in H as [H _]. apply andb_prop in H as [H _]. apply andb_prop in H as [_ H].
  rewrite forallb_forall in H. intros e He Hv. specialize (H e He). rewrite Hv in H. cbn in H.
  destruct (it_kind (snd e)), (it_wire (snd e)); try discriminate; exact I.
Qed.
Lemma wf_edges_ranges es : wf_edges es = true -> wf_ranges es.
Proof.
  unfold wf_edges. intros H. apply andb_prop in H as [_ H].
  rewrite forallb_forall in H. intros e He. specialize (H e He).
  destruct (it_range (snd e)) as [[]|]; try discriminate; exact I.
Qed.

Lemma variant_fmt_some es v : wf_variants es ->
  (exists e, In e es /\ snd e = v /\ has_variant (fst e) (snd e) = true) -> variant_fmt v es <> None.
Proof.
  intros Hwf [e [He [Hs Hv]]]. specialize (Hwf e He Hv). rewrite Hs in Hwf. unfold variant_fmt.
  destruct (it_kind v), (it_wire v); try contradiction; discriminate.
Qed.

Definition enum_ok (c : container) : Prop := match c with CEnum vs => keys_from 0 vs = true | _ => True end.

Lemma containers_enum_ok es : wf_variants es -> wf_ranges es -> forall kc, In kc (containers es) -> enum_ok (snd kc).
Proof.
  intros Hv Hr kc. unfold containers, derived_containers. rewrite !in_app_iff, in_flat_map. unfold range_containers. rewrite filter_map_In.
  intros [[[e [He Hk]] | [e [He Hk]]] | [Hk|[]]].
  - unfold container_of in Hk. destruct (it_name (fst e)); [|contradiction].
    destruct (it_kind (fst e)); try contradiction.
    + destruct Hk as [Hk|[]]. subst kc. cbn. exact I.
    + destruct Hk as [Hk|[]]. subst kc. cbn [snd]. destruct (named_fmts (fst e) es); exact I.
    + destruct Hk as [Hk|[]]. subst kc. cbn [snd]. destruct (plain_fmts (fst e) es) as [|a [|b l]]; exact I.
    + destruct (children has_variant (fst e) es); [contradiction|]. destruct Hk as [Hk|[]]. subst kc. cbn [snd enum_ok].
      apply enum_entries_keys. intros v Hin. apply variant_fmt_some; [exact Hv|]. eapply variants_In. exact Hin.
  - destruct (has_field (fst e) (snd e)); [|discriminate]. specialize (Hr e He).
    destruct (it_range (snd e)) as [c|]; [|discriminate]. inversion Hk; subst. cbn. destruct c; try contradiction; exact I.
  - subst kc. exact I.
Qed.

(* Every enum container of the registry has the keys 0, 1, .., n-1, in this order. *)
Theorem format_contiguous es : wf_edges es = true -> contiguousb (format es) = true.
Proof.
  intros Hwf. unfold contiguousb. apply forallb_forall. intros kc Hin. apply build_In in Hin.
  pose proof (containers_enum_ok es (wf_edges_variants _ Hwf) (wf_edges_ranges _ Hwf) kc Hin) as H.
  destruct (snd kc); try reflexivity. exact H.
Qed.

(* ================================================================ closedness *)

(* a container called [s] is derived from the edges *)
Definition defines (es : edges) (s : string) : Prop := exists c, In (s, c) (derived_containers es).

(* every type name used by a field that is present names such an item *)
Definition resolved (es : edges) : Prop :=
  forall e, In e es -> has_field (fst e) (snd e) = true ->
  forall s, In s (names_of_item (snd e)) -> defines es s.

Lemma defines_has_key es s : defines es s -> has_key s (format es) = true.
Proof.
  intros [c Hc]. unfold format. apply (build_has_key _ s c). unfold containers.
  apply in_or_app. left. exact Hc.
Qed.

Lemma plain_fmts_names x es s : In s (flat_map fmt_names (plain_fmts x es)) ->
  exists f, In f (fields x es) /\ In s (names_of_item f).
Proof.
  unfold plain_fmts. rewrite in_flat_map. intros [t [Ht Hs]]. apply filter_map_In in Ht as [f [Hf Hfmt]].
  exists f. split; [exact Hf|]. unfold names_of_item. rewrite Hfmt. apply in_or_app. left. exact Hs.
Qed.
Lemma named_fmts_names x es s : In s (flat_map (fun nf : string * fmt => fmt_names (snd nf)) (named_fmts x es)) ->
  exists f, In f (fields x es) /\ In s (names_of_item f).
Proof.
  unfold named_fmts. rewrite in_flat_map. intros [[n t] [Ht Hs]]. apply filter_map_In in Ht as [f [Hf Hfmt]].
  exists f. split; [exact Hf|]. unfold names_of_item. destruct (it_wire f); [|discriminate].
  destruct (it_fmt f); [|discriminate]. inversion Hfmt; subst. apply in_or_app. left. exact Hs.
Qed.

Lemma tuple_shape_names (l : list fmt) s :
  In s (container_names (match l with [] => CUnitStruct | [f] => CNewTypeStruct f | a :: b :: r => CTupleStruct (a :: b :: r) end)) ->
  In s (flat_map fmt_names l).
Proof. destruct l as [|a [|b l]]; cbn; [intros [] | rewrite app_nil_r; auto | auto]. Qed.
Lemma vtuple_shape_names (l : list fmt) s :
  In s (vfmt_names (match l with [] => VUnit | [f] => VNewType f | a :: b :: r => VTuple (a :: b :: r) end)) ->
  In s (flat_map fmt_names l).
Proof. destruct l as [|a [|b l]]; cbn; [intros [] | rewrite app_nil_r; auto | auto]. Qed.
Lemma struct_shape_names (l : list (string * fmt)) s :
  In s (container_names (match l with [] => CUnitStruct | a :: r => CStruct (a :: r) end)) ->
  In s (flat_map (fun nf : string * fmt => fmt_names (snd nf)) l).
Proof. destruct l; cbn; auto. Qed.

Lemma variant_fmt_names v es n vf s : variant_fmt v es = Some (n, vf) -> In s (vfmt_names vf) ->
  exists f, In f (fields v es) /\ In s (names_of_item f).
Proof.
  unfold variant_fmt. destruct (it_wire v); [|discriminate]. destruct (it_kind v); try discriminate; intros H Hs; inversion H; subst.
  - contradiction.
  - apply vtuple_shape_names in Hs. apply plain_fmts_names. exact Hs.
  - cbn in Hs. apply named_fmts_names. exact Hs.
Qed.

Lemma enum_entries_names vs es s : forall i,
  In s (flat_map (fun e : N * (string * vfmt) => vfmt_names (snd (snd e))) (enum_entries i vs es)) ->
  exists v n vf, In v vs /\ variant_fmt v es = Some (n, vf) /\ In s (vfmt_names vf).
Proof.
  induction vs as [|v vs IH]; intros i; cbn [enum_entries]; [intros []|].
  destruct (variant_fmt v es) as [[n vf]|] eqn:E.
  - cbn [flat_map snd]. rewrite in_app_iff. intros [H|H].
    + exists v, n, vf. split; [left; reflexivity | split; assumption].
    + apply IH in H as [w [n' [vf' [Hw Hrest]]]]. exists w, n', vf'. split; [right; exact Hw | exact Hrest].
  - intros H. apply IH in H as [w [n' [vf' [Hw Hrest]]]]. exists w, n', vf'. split; [right; exact Hw | exact Hrest].
Qed.

(* every type name in a derived container comes from a field that is present under some item *)
Lemma container_of_names x es k c s : In (k, c) (container_of x es) -> In s (container_names c) ->
  exists y f, In f (fields y es) /\ In s (names_of_item f).
Proof.
  unfold container_of. destruct (it_name x); [|intros []]. destruct (it_kind x); try contradiction.
  - intros [H|[]] Hs. inversion H; subst. contradiction.
  - intros [H|[]] Hs. inversion H; subst. apply struct_shape_names in Hs. apply named_fmts_names in Hs as [f Hf]. exists x, f. exact Hf.
  - intros [H|[]] Hs. inversion H; subst. apply tuple_shape_names in Hs. apply plain_fmts_names in Hs as [f Hf]. exists x, f. exact Hf.
  - destruct (children has_variant x es); [intros []|]. intros [H|[]] Hs. inversion H; subst. cbn [container_names] in Hs.
    apply enum_entries_names in Hs as [v [n [vf [_ [Hv Hs]]]]].
    destruct (variant_fmt_names _ _ _ _ _ Hv Hs) as [f Hf]. exists v, f. exact Hf.
Qed.

(* The registry is closed, apart from the reference to [Effect] made by the fixed [Request]
   container, whenever every type name used by a present field names an item that has a container. *)
Theorem format_closed es : resolved es -> closed_mod_requestb (format es) = true.
Proof.
  intros Hres. unfold closed_mod_requestb. apply forallb_forall. intros [k c] Hin. cbn [fst snd].
  apply build_In in Hin. unfold containers, derived_containers in Hin. rewrite !in_app_iff in Hin.
  destruct Hin as [[Hin | Hin] | [Hin|[]]].
  - apply orb_true_iff. right. apply forallb_forall. intros s Hs.
    apply in_flat_map in Hin as [e [He Hc]].
    destruct (container_of_names _ _ _ _ _ Hc Hs) as [y [f [Hf Hn]]].
    apply fields_In in Hf as [e1 [He1 [Hs1 Hh]]]. subst f.
    apply defines_has_key. eapply Hres; eassumption.
  - apply orb_true_iff. right. apply forallb_forall. intros s Hs.
    unfold range_containers in Hin. apply filter_map_In in Hin as [e [He Hk]].
    destruct (has_field (fst e) (snd e)) eqn:Hh; [|discriminate].
    destruct (it_range (snd e)) as [c'|] eqn:Hr; [|discriminate]. inversion Hk; subst.
    apply defines_has_key. eapply Hres; [exact He | exact Hh |]. unfold names_of_item. rewrite Hr. apply in_or_app. right. exact Hs.
  - inversion Hin; subst. reflexivity.
Qed.

Theorem format_closed_full es : resolved es -> defines es "Effect" -> closedb (format es) = true.
Proof.
  intros Hres Heff. pose proof (format_closed es Hres) as H. unfold closed_mod_requestb, closedb in *.
  rewrite forallb_forall in H. apply forallb_forall. intros [k c] Hin. specialize (H _ Hin). cbn [fst snd] in *.
  apply orb_true_iff in H as [H|H]; [|exact H].
  apply String.eqb_eq in H. subst k. pose proof Hin as Hin2. apply build_In in Hin2.
  (* the Request entry of the registry is either the fixed container or a user type called Request *)
  apply forallb_forall. intros s Hs.
  unfold containers, derived_containers in Hin2. rewrite !in_app_iff in Hin2. destruct Hin2 as [[Hin2 | Hin2] | [Hin2|[]]].
  - apply in_flat_map in Hin2 as [e [He Hc]].
    destruct (container_of_names _ _ _ _ _ Hc Hs) as [y [f [Hf Hn]]].
    apply fields_In in Hf as [e1 [He1 [Hs1 Hh]]]. subst f. apply defines_has_key. eapply Hres; eassumption.
  - unfold range_containers in Hin2. apply filter_map_In in Hin2 as [e [He Hk]].
    destruct (has_field (fst e) (snd e)); [|discriminate]. destruct (it_range (snd e)); discriminate.
  - inversion Hin2; subst. cbn in Hs. destruct Hs as [Hs|[]]. subst s. apply defines_has_key. exact Heff.
Qed.

(* a decidable sufficient condition, for regenerated fixtures *)

Lemma definesb_defines es s : definesb es s = true -> defines es s.
Proof.
  unfold definesb. intros H. apply existsb_exists in H as [[k c] [Hk H]].
  apply String.eqb_eq in H. cbn in H. subst k. exists c. exact Hk.
Qed.
Lemma resolvedb_resolved es : resolvedb es = true -> resolved es.
Proof.
  unfold resolvedb. intros H e He Hh s Hs. rewrite forallb_forall in H. specialize (H e He). rewrite Hh in H. cbn in H.
  rewrite forallb_forall in H. apply definesb_defines. apply H. exact Hs.
Qed.

(* ================================================================ the boolean equalities decide equality *)
Section FmtInd.
  Variable P : fmt -> Prop.
  Hypothesis HTn : forall s, P (FTypeName s).
  Hypothesis HPr : forall p, P (FPrim p).
  Hypothesis HOp : forall f, P f -> P (FOption f).
  Hypothesis HSe : forall f, P f -> P (FSeq f).
  Hypothesis HMa : forall k v, P k -> P v -> P (FMap k v).
  Hypothesis HTu : forall fs, Forall P fs -> P (FTuple fs).
  Hypothesis HTa : forall f n, P f -> P (FTupleArray f n).
  Hypothesis HTo : P FTodo.
  Fixpoint fmt_ind' (f : fmt) : P f :=
    match f with
    | FTypeName s => HTn s
    | FPrim p => HPr p
    | FOption x => HOp x (fmt_ind' x)
    | FSeq x => HSe x (fmt_ind' x)
    | FMap k v => HMa k v (fmt_ind' k) (fmt_ind' v)
    | FTuple xs => HTu xs ((fix go (l : list fmt) : Forall P l :=
                              match l with [] => Forall_nil P | x :: l' => Forall_cons x (fmt_ind' x) (go l') end) xs)
    | FTupleArray x n => HTa x n (fmt_ind' x)
    | FTodo => HTo
    end.
End FmtInd.

Lemma prim_eqb_eq a b : prim_eqb a b = true -> a = b.
Proof. destruct a, b; cbn; intros H; try discriminate; reflexivity. Qed.

Lemma fmt_eqb_eq : forall a b, fmt_eqb a b = true -> a = b.
Proof.
  induction a using fmt_ind'; intros b; destruct b; cbn [fmt_eqb]; intros Hb; try discriminate.
  - apply String.eqb_eq in Hb. congruence.
  - apply prim_eqb_eq in Hb. congruence.
  - f_equal. apply IHa. exact Hb.
  - f_equal. apply IHa. exact Hb.
  - apply andb_prop in Hb as [H1 H2]. f_equal; [apply IHa1 | apply IHa2]; assumption.
  - f_equal. revert fs0 Hb. induction H as [|x l Hx Hl IH]; intros [|y l'] Hb; try discriminate; [reflexivity|].
    apply andb_prop in Hb as [H1 H2]. f_equal; [apply Hx; exact H1 | apply IH; exact H2].
  - apply andb_prop in Hb as [H1 H2]. apply N.eqb_eq in H2. f_equal; [apply IHa; exact H1 | exact H2].
  - reflexivity.
Qed.

Lemma list_eqb_eq {A} (eqb : A -> A -> bool) : (forall a b, eqb a b = true -> a = b) ->
  forall l l', list_eqb eqb l l' = true -> l = l'.
Proof.
  intros He. induction l as [|x l IH]; intros [|y l'] H; cbn in H; try discriminate; [reflexivity|].
  apply andb_prop in H as [H1 H2]. f_equal; [apply He; exact H1 | apply IH; exact H2].
Qed.

Lemma named_eqb_eq {A} (eqb : A -> A -> bool) : (forall a b, eqb a b = true -> a = b) ->
  forall p q, named_eqb eqb p q = true -> p = q.
Proof.
  intros He [n a] [m b] H. unfold named_eqb in H. cbn in H. apply andb_prop in H as [H1 H2].
  apply String.eqb_eq in H1. apply He in H2. congruence.
Qed.

Lemma vfmt_eqb_eq a b : vfmt_eqb a b = true -> a = b.
Proof.
  destruct a, b; cbn; intros H; try discriminate; try reflexivity; f_equal.
  - apply fmt_eqb_eq. exact H.
  - apply (list_eqb_eq _ fmt_eqb_eq). exact H.
  - apply (list_eqb_eq _ (named_eqb_eq _ fmt_eqb_eq)). exact H.
Qed.

Lemma container_eqb_eq a b : container_eqb a b = true -> a = b.
Proof.
  destruct a, b; cbn; intros H; try discriminate; try reflexivity; f_equal.
  - apply fmt_eqb_eq. exact H.
  - apply (list_eqb_eq _ fmt_eqb_eq). exact H.
  - apply (list_eqb_eq _ (named_eqb_eq _ fmt_eqb_eq)). exact H.
  - revert H. apply list_eqb_eq. intros [i p] [j q] H. cbn in H. apply andb_prop in H as [H1 H2].
    apply N.eqb_eq in H1. apply (named_eqb_eq _ vfmt_eqb_eq) in H2. congruence.
Qed.

Theorem registry_eqb_eq a b : registry_eqb a b = true -> a = b.
Proof. apply list_eqb_eq. apply named_eqb_eq. apply container_eqb_eq. Qed.

(* a decidable form of [unambiguous] and of [fun_ids], for regenerated fixtures *)

Lemma unambiguousb_sound l : unambiguousb l = true -> unambiguous l.
Proof.
  unfold unambiguousb. intros H k v v' H1 H2. rewrite forallb_forall in H. specialize (H _ H1).
  rewrite forallb_forall in H. specialize (H _ H2). cbn in H. rewrite String.eqb_refl in H. cbn in H.
  apply container_eqb_eq. exact H.
Qed.

Lemma opt_str_eq (a b : option string) :
  match a, b with Some s, Some t => String.eqb s t | None, None => true | _, _ => false end = true -> a = b.
Proof. destruct a, b; intros H; try discriminate; [apply String.eqb_eq in H; congruence | reflexivity]. Qed.

Lemma item_eqb_eq a b : item_eqb_shallow a b = true -> a = b.
Proof.
  destruct a as [i1 n1 rw1 k1 s1 w1 f1 r1], b as [i2 n2 rw2 k2 s2 w2 f2 r2]. unfold item_eqb_shallow. cbn [it_id it_name it_raw it_kind it_skip it_wire it_fmt it_range].
  intros H. do 7 (apply andb_prop in H as [H ?]).
  assert (i1 = i2).
  { destruct i1, i2. unfold gid_eqb in H. cbn in H. apply andb_prop in H as [Hb Ha]. apply String.eqb_eq in Ha. apply N.eqb_eq in Hb. congruence. }
  assert (n1 = n2) by (apply opt_str_eq; assumption).
  assert (rw1 = rw2) by (apply opt_str_eq; assumption).
  assert (s1 = s2) by (apply Bool.eqb_prop; assumption).
  assert (w1 = w2) by (apply opt_str_eq; assumption).
  assert (f1 = f2) by (destruct f1, f2; try discriminate; [f_equal; apply fmt_eqb_eq; assumption | reflexivity]).
  assert (r1 = r2) by (destruct r1, r2; try discriminate; [f_equal; apply container_eqb_eq; assumption | reflexivity]).
  assert (k1 = k2).
  { destruct k1, k2; try discriminate; try reflexivity; f_equal; apply (list_eqb_eq N.eqb); try assumption; intros x y Hxy; apply N.eqb_eq; exact Hxy. }
  congruence.
Qed.

Lemma wf_edges_fun_ids es : wf_edges es = true -> fun_ids es.
Proof.
  unfold wf_edges. intros H. do 4 (apply andb_prop in H as [H _]).
  intros a b Ha Hb Hs. rewrite forallb_forall in H. specialize (H a Ha). rewrite forallb_forall in H. specialize (H b Hb).
  rewrite Hs in H. cbn in H. apply item_eqb_eq. exact H.
Qed.

Lemma fun_ids_rename rho es : (forall c a b, rho c a = rho c b -> a = b) -> fun_ids es -> fun_ids (rename_edges rho es).
Proof.
  intros Hinj Hf a b Ha Hb Hs. apply items_of_In in Ha as [e [He Ha]]. apply items_of_In in Hb as [e' [He' Hb]].
  unfold rename_edges in He, He'. apply in_map_iff in He as [e0 [E0 He0]]. apply in_map_iff in He' as [e1 [E1 He1]].
  subst e e'. cbn [fst snd] in Ha, Hb.
  assert (Hx : exists x, a = rename_item rho x /\ In x (items_of es)).
  { destruct Ha as [Ha|Ha]; [exists (fst e0) | exists (snd e0)]; (split; [exact Ha|]); apply items_of_In; exists e0; auto. }
  assert (Hy : exists y, b = rename_item rho y /\ In y (items_of es)).
  { destruct Hb as [Hb|Hb]; [exists (fst e1) | exists (snd e1)]; (split; [exact Hb|]); apply items_of_In; exists e1; auto. }
  destruct Hx as [x [-> Hx]]. destruct Hy as [y [-> Hy]].
  rewrite (rn_same_item rho Hinj) in Hs. f_equal. apply Hf; assumption.
Qed.

(* purity: renumber the ids, then list the edges in any order *)
Theorem format_pure rho es es' :
  (forall c a b, rho c a = rho c b -> a = b) -> fun_ids es -> unambiguous (containers es) ->
  Permutation (rename_edges rho es) es' -> format es' = format es.
Proof.
  intros Hinj Hf Hu HP. rewrite <- (format_renumber_invariant rho Hinj es). symmetry.
  apply format_perm_invariant; [exact HP | apply fun_ids_rename; assumption |].
  rewrite (rn_containers rho Hinj). exact Hu.
Qed.
