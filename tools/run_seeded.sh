#!/bin/bash
# usage: run_seeded3.sh "C15:C15-m4:C15 C09:C09-m4:C09,C02 ..."   (prop:name:checks)
cd /verif
for item in $1; do
  p=$(echo $item | cut -d: -f1); name=$(echo $item | cut -d: -f2); checks=$(echo $item | cut -d: -f3)
  src=/tmp/${MUTDIR:-mut3}-$p/out
  [ -f $src/meta.json ] || { echo "missing $src"; continue; }
  rm -f $src/*.log
  python3 tools/try_seeded.py $p $src $name --checks $checks > /tmp/seed3-$p.log 2>&1
  tail -1 /tmp/seed3-$p.log
  git -C /repo worktree remove --force /tmp/${MUTDIR:-mut3}-$p 2>/dev/null; rm -rf /tmp/${MUTDIR:-mut3}-$p
done
