#!/usr/bin/env python3
"""Prints the markdown table of seeded changes (seeded/*/meta.json) for DESIGN.md section 11."""
import json, glob, os
rows = []
for f in sorted(glob.glob(os.path.join(os.path.dirname(os.path.dirname(os.path.abspath(__file__))), "seeded", "*", "meta.json"))):
    d = json.load(open(f)); name = os.path.basename(os.path.dirname(f))
    det = d.get("detected_by", []); conc = d.get("detected_with_concrete_input", [])
    res = "missed" if not det else ("caught by " + ", ".join("%s%s" % (c, "" if c in conc else " (no-failing-input-found)") for c in det))
    ran = ", ".join(d.get("checks", {}).keys())
    rows.append("| %s | %s | %s | %s | %s |" % (name, (d.get("breaks") or "")[:160].replace("|", "/").replace("\n", " "), (d.get("needs_to_manifest") or "")[:140].replace("|", "/").replace("\n", " "), ran, res))
print("| seeded change | what it does | needs to manifest | checks run | result |\n|---|---|---|---|---|")
print("\n".join(rows))
