#!/usr/bin/env python3
"""tools/shrink_rt.py <case.json> : greedy shrinking of an rt case (host/prog/handlers/acts) on which the runtime
model and the implementation differ: removes schedule steps while they still differ.  Uses rt_run's replay mode
(the implementation) and coqc (the model)."""
import sys, os, json, subprocess, re
ROOT = os.path.dirname(os.path.dirname(os.path.abspath(__file__)))
sys.path.insert(0, ROOT); sys.path.insert(0, os.path.join(ROOT, "lib"))
from engines import rt_eng
BIN = os.environ.get("RT_BIN", os.path.join(ROOT, ".cache/target/release/rt_run"))
def split_list(s):
    s = s.strip()[1:-1]; out = []; depth = 0; cur = ""
    for ch in s:
        if ch in "([": depth += 1
        if ch in ")]": depth -= 1
        if ch == ";" and depth == 0: out.append(cur.strip()); cur = ""
        else: cur += ch
    if cur.strip(): out.append(cur.strip())
    return out
def impl(c, acts):
    r = subprocess.run([BIN, "1", "0", "", "replay", c["host"], c["prog"], c["handlers"], "[" + "; ".join(acts) + "]"], capture_output=True, text=True, timeout=60)
    return r.stdout.strip()
def verdict(c, acts, obs, fn):
    d = "/tmp/shrink_rt"; os.makedirs(d, exist_ok=True)
    case = dict(c, acts="[" + "; ".join(acts) + "]", impl=obs)
    open(d + "/S.v", "w").write(rt_eng.HEADER + "Definition cs : list rtcase := [%s].\nEval vm_compute in (%s cs).\n" % (rt_eng.case_term(case), fn))
    r = subprocess.run("coqc -noglob -Q %s/coq Crux %s/S.v" % (ROOT, d), shell=True, capture_output=True, text=True, timeout=300)
    m = re.search(r"=\s*\[(\d+)", r.stdout)
    return int(m.group(1)) if m else -1
def main():
    c = json.load(open(sys.argv[1])); fn = sys.argv[2] if len(sys.argv) > 2 else "verdicts_C07"
    if "cases" in c: c = c["cases"][0]
    acts = split_list(c["acts"]); want = verdict(c, acts, impl(c, acts), fn)
    print("initial verdict", want, "steps", len(acts))
    i = len(acts) - 1
    while i >= 0:
        cand = acts[:i] + acts[i+1:]
        if verdict(c, cand, impl(c, cand), fn) == want: acts = cand
        i -= 1
    print("steps", len(acts)); print("[" + "; ".join(acts) + "]"); print(impl(c, acts))
    json.dump(dict(c, acts="[" + "; ".join(acts) + "]", impl=impl(c, acts)), open(sys.argv[1] + ".min", "w"))
main()
