#!/bin/bash
# Runs every registered check (quick tier unless $1 = thorough), 4 at a time; prints one line per property.
cd "$(dirname "$0")/.."
tier=${1:-quick}
ids=$(python3 -c "import json; print(' '.join(c['property_id'] for c in json.load(open('MANIFEST.json'))['checks']))")
printf '%s\n' $ids | xargs -P 4 -I{} bash -c "./check {} --tier $tier > .cache/checkall_{}.log 2>&1; echo {} rc=\$? \$(grep -E '^(PASS|FAIL)' .cache/checkall_{}.log | tail -1 | cut -c1-110) \$(grep -c '^VIOLATION' .cache/checkall_{}.log) violations \$(grep -c '^KNOWN-FINDING' .cache/checkall_{}.log) known"
