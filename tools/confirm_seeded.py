#!/usr/bin/env python3
"""tools/confirm_seeded.py <name> ...   Re-confirms kept seeded changes (seeded/<name>/) in a scratch worktree of /repo:
the demonstration passes without the change, the touched crates' own tests pass with it, the demonstration fails with
it.  Records the outcome in seeded/<name>/meta.json ("confirmed", "confirm_ran") and removes the worktree.  Feature
flags / cfg the demo needs are taken from meta.demo_cmd when present, otherwise guessed from the demo's text."""
import sys, os, json, subprocess, shutil, re
ROOT = os.path.dirname(os.path.dirname(os.path.abspath(__file__)))
def sh(cmd, cwd=None, timeout=3000, env=None):
    e = dict(os.environ); e.update({"CARGO_NET_OFFLINE": "true", "RUSTUP_TOOLCHAIN": "stable-x86_64-unknown-linux-gnu"}); e.update(env or {})
    p = subprocess.run(cmd, shell=True, cwd=cwd, env=e, stdout=subprocess.PIPE, stderr=subprocess.STDOUT, text=True, errors="replace", timeout=timeout)
    return p.returncode, p.stdout

def confirm(name):
    forced = None
    if '@' in name: name, forced = name.split('@', 1)
    dst = os.path.join(ROOT, "seeded", name); mp = os.path.join(dst, "meta.json"); meta = json.load(open(mp))
    wt = "/tmp/conf-%s" % name
    sh("git -C /repo worktree remove --force %s" % wt); shutil.rmtree(wt, ignore_errors=True)
    rc, out = sh("git -C /repo worktree add --detach %s HEAD" % wt); assert rc == 0, out
    try:
        os.remove(os.path.join(wt, "rust-toolchain.toml"))
        patch = os.path.join(dst, "patch.diff")
        crates = sorted(set(re.findall(r"^\+\+\+ b/(crux_\w+)/", open(patch).read(), re.M)))
        tdir = {"CARGO_TARGET_DIR": wt + "/target"}
        ran = []
        demos = [f for f in os.listdir(dst) if f.startswith("demo") and f.endswith(".rs")]
        dc = meta.get("demo_cmd") or ""
        def demo(tag):
            if demos and os.path.exists(os.path.join(dst, "run_demo.sh")) and "crux_cli" in open(os.path.join(dst, "run_demo.sh")).read():
                # the demo needs crate-private items of crux_cli: it is compiled as a unit-test module of the crate
                modrs = os.path.join(wt, "crux_cli/src/codegen/mod.rs"); saved = open(modrs).read()
                shutil.copy(os.path.join(dst, demos[0]), os.path.join(wt, "crux_cli/src/codegen/c20_demo.rs"))
                open(modrs, "a").write("\n#[cfg(test)]\nmod c20_demo;\n")
                cmd = "cargo test -p crux_cli --offline --lib -j 8 c20_demo"
                rc, out = sh(cmd, cwd=wt, env=tdir)
                open(modrs, "w").write(saved); os.remove(os.path.join(wt, "crux_cli/src/codegen/c20_demo.rs"))
                passed = re.search(r"test result: ok\. [1-9]", out) is not None and "FAILED" not in out and rc == 0
                ran.append({"step": "demo " + tag, "cmd": cmd + " (demo.rs as module codegen::c20_demo)", "passed": passed, "tail": out[-500:]})
                return passed
            if demos:
                text = open(os.path.join(dst, demos[0])).read()
                m = re.search(r"-p (crux_\w+)", dc)
                crate = forced if forced else m.group(1) if m else next((c for c in ("crux_http", "crux_kv", "crux_time", "crux_cli", "crux_platform") if re.search(r"\b%s::" % c, text) and c in crates), None) or \
                        next((c for c in ("crux_http", "crux_kv", "crux_time", "crux_cli") if re.search(r"\buse %s\b|\b%s::" % (c, c), text)), None) or "crux_core"
                feats = []
                mf = re.search(r"--features[ =](\S+)", dc)
                if mf: feats.append("--features " + mf.group(1))
                elif crate == "crux_time": feats.append("--all-features")
                elif crate == "crux_core" and "typegen" in text: feats.append("--features typegen")
                elif crate == "crux_http" and ("encoding" in text or "charset" in text): feats.append("--all-features")
                env = dict(tdir)
                mr = re.search(r'RUSTFLAGS=["\']([^"\']*)["\']', dc)
                if mr: env["RUSTFLAGS"] = mr.group(1)
                elif "crux_verif" in text or "verif_" in text: env["RUSTFLAGS"] = "--cfg crux_verif"
                os.makedirs(os.path.join(wt, crate, "tests"), exist_ok=True)
                tdst = os.path.join(wt, crate, "tests", "seed_demo.rs"); shutil.copy(os.path.join(dst, demos[0]), tdst)
                cmd = "cargo test -p %s --offline %s -j 8 --test seed_demo" % (crate, " ".join(feats))
                rc, out = sh(cmd, cwd=wt, env=env); os.remove(tdst)
                passed = re.search(r"test result: ok\. [1-9]", out) is not None and "FAILED" not in out and rc == 0
                ran.append({"step": "demo " + tag, "cmd": (("RUSTFLAGS=\"%s\" " % env["RUSTFLAGS"]) if "RUSTFLAGS" in env else "") + cmd, "passed": passed, "tail": out[-500:]})
                return passed
            if os.path.isdir(os.path.join(dst, "demo")):
                dd = os.path.join(wt, "out", "1", "demo"); shutil.rmtree(dd, ignore_errors=True); os.makedirs(os.path.dirname(dd), exist_ok=True)
                shutil.copytree(os.path.join(dst, "demo"), dd, ignore=shutil.ignore_patterns("target"))
                ct = os.path.join(dd, "Cargo.toml"); t = re.sub(r"/tmp/mut\d*-C\d+", wt, open(ct).read()); open(ct, "w").write(t)
                shutil.copy(os.path.join(wt, "Cargo.lock"), os.path.join(dd, "Cargo.lock"))
                rc, out = sh("cargo run --offline -j 8", cwd=dd, env={"CARGO_TARGET_DIR": wt + "/target-demo"})
                ran.append({"step": "demo " + tag, "cmd": "cargo run --offline (demo crate)", "passed": rc == 0, "tail": out[-500:]})
                shutil.rmtree(dd, ignore_errors=True)
                return rc == 0
            ran.append({"step": "demo " + tag, "cmd": None, "passed": None, "tail": "no demonstration file kept"}); return None
        p0 = demo("without change")
        rc, out = sh("git apply %s" % patch, cwd=wt); assert rc == 0, out
        ok_tests = True
        for c in crates:
            feat = "--all-features" if c == "crux_time" else ""
            rc, out = sh("cargo test -p %s --offline %s --lib --tests -j 8 2>&1 | grep -E '^test result|FAILED|^error' " % (c, feat), cwd=wt, env=tdir)
            good = "FAILED" not in out and not re.search(r"^error", out, re.M) and "test result: ok" in out
            ran.append({"step": "existing tests of %s with change" % c, "ok": good, "tail": out[-300:]}); ok_tests &= good
        p1 = demo("with change")
        meta["confirmed"] = bool(p0 is True and p1 is False and ok_tests)
        meta["confirm_ran"] = ran
        json.dump(meta, open(mp, "w"), indent=1)
        print("%s confirmed=%s (demo without: %s, with: %s, existing tests: %s)" % (name, meta["confirmed"], p0, p1, ok_tests), flush=True)
    finally:
        sh("git -C /repo worktree remove --force %s" % wt); shutil.rmtree(wt, ignore_errors=True)

if __name__ == "__main__":
    for n in sys.argv[1:]:
        try: confirm(n)
        except Exception as ex: print("%s ERROR %s" % (n, ex), flush=True)
