#!/usr/bin/env python3
"""tools/try_seeded.py <prop> <src_dir_with patch.diff/demo/meta.json> <name> [--checks C01,C05] [--skip-confirm]
Confirms a seeded change in a scratch worktree (applies, builds, existing tests of the touched crates pass,
demo fails with the change and passes without), runs the given checks against it with VERIF_REPO, stores
everything under seeded/<name>/ and removes the worktree."""
import sys, os, json, subprocess, shutil, re, time
ROOT = os.path.dirname(os.path.dirname(os.path.abspath(__file__)))
def sh(cmd, cwd=None, timeout=3000, env=None):
    e = dict(os.environ); e.update({"CARGO_NET_OFFLINE": "true", "RUSTUP_TOOLCHAIN": "stable-x86_64-unknown-linux-gnu"}); e.update(env or {})
    p = subprocess.run(cmd, shell=True, cwd=cwd, env=e, stdout=subprocess.PIPE, stderr=subprocess.STDOUT, text=True, errors="replace", timeout=timeout)
    return p.returncode, p.stdout
def main():
    prop, src, name = sys.argv[1], sys.argv[2], sys.argv[3]
    checks = [prop]; skip = "--skip-confirm" in sys.argv
    for a in sys.argv[4:]:
        if a.startswith("--checks"): checks = sys.argv[sys.argv.index(a) + 1].split(",")
    wt = "/tmp/seed-%s" % name
    sh("flock /tmp/git.lock git -C /repo worktree remove --force %s" % wt); shutil.rmtree(wt, ignore_errors=True)
    rc, out = sh("flock /tmp/git.lock git -C /repo worktree add --detach %s HEAD" % wt)
    assert rc == 0, out
    os.remove(os.path.join(wt, "rust-toolchain.toml"))
    dst = os.path.join(ROOT, "seeded", name); os.makedirs(dst, exist_ok=True)
    for f in (os.listdir(src) if os.path.abspath(src) != os.path.abspath(dst) else []):
        if f.endswith(".log"): continue
        s = os.path.join(src, f)
        if os.path.isdir(s): shutil.copytree(s, os.path.join(dst, f), dirs_exist_ok=True, ignore=shutil.ignore_patterns("target"))
        else: shutil.copy(s, dst)
    meta = json.load(open(os.path.join(src, "meta.json")))
    patch = os.path.join(dst, "patch.diff")
    crates = sorted(set(re.findall(r"^\+\+\+ b/(crux_\w+)/", open(patch).read(), re.M)))
    rec = {"property": prop, "breaks": meta.get("summary") or meta.get("breaks"), "needs_to_manifest": meta.get("needs_to_manifest"), "crates": crates, "ran": []}
    tdir = {"CARGO_TARGET_DIR": wt + "/target"}
    def demo(tag):
        m = re.search(r"-p (crux_\w+)", meta.get("demo_cmd", "")); crate = m.group(1) if m else crates[0]
        feat = "--all-features" if crate == "crux_time" else ""
        demos = [f for f in os.listdir(dst) if f.startswith("demo") and f.endswith(".rs")]
        if demos:
            os.makedirs(os.path.join(wt, crate, "tests"), exist_ok=True)
            tdst = os.path.join(wt, crate, "tests", "seed_demo.rs"); shutil.copy(os.path.join(dst, demos[0]), tdst)
            cmd = "cargo test -p %s --offline %s -j 6 --test seed_demo" % (crate, feat)
            mf = re.search(r'RUSTFLAGS=["\']([^"\']*)["\']', meta.get("demo_cmd", ""))
            envd = dict(tdir); envd.update({"RUSTFLAGS": mf.group(1)} if mf else {})
            rc, out = sh(cmd, cwd=wt, env=envd); os.remove(tdst)
        elif os.path.isdir(os.path.join(dst, "demo")):
            # a demo crate with path dependencies on the scratch tree: repoint them, exit status decides
            dd = os.path.join(wt, "seed_demo_crate"); shutil.rmtree(dd, ignore_errors=True); shutil.copytree(os.path.join(dst, "demo"), dd, ignore=shutil.ignore_patterns("target"))
            ct = os.path.join(dd, "Cargo.toml"); t = re.sub(r"/tmp/mut-C\d+", wt, open(ct).read()); open(ct, "w").write(t)
            shutil.copy(os.path.join(wt, "Cargo.lock"), os.path.join(dd, "Cargo.lock"))
            cmd = "cargo run --offline -j 6"
            rc, out = sh(cmd, cwd=dd, env={"CARGO_TARGET_DIR": wt + "/target-demo"})
            rec["ran"].append({"step": "demo " + tag, "cmd": cmd, "failed": rc != 0, "passed": rc == 0, "tail": out[-600:]})
            shutil.rmtree(dd, ignore_errors=True)
            return rc != 0, rc == 0
        else:
            cmd = meta.get("demo_cmd", "false")
            cmd = re.sub(r"/tmp/mut-C\d+/out/\d+", dst, cmd); cmd = re.sub(r"/tmp/mut-C\d+", wt, cmd)
            rc, out = sh(cmd, cwd=wt, env=tdir)
        passed = re.search(r"test result: ok\. [1-9]", out) is not None and "FAILED" not in out and rc == 0
        failed = not passed
        rec["ran"].append({"step": "demo " + tag, "cmd": cmd, "failed": failed, "passed": passed, "tail": out[-600:]})
        return failed, passed
    ok_confirm = True
    if not skip:
        f0, p0 = demo("without change")
        rc, out = sh("git apply %s" % patch, cwd=wt); assert rc == 0, out
        for c in crates:
            feat = "--all-features" if c == "crux_time" else ""
            rc, out = sh("cargo test -p %s --offline %s --lib --tests -j 6 2>&1 | grep -E '^test result|FAILED|error' " % (c, feat), cwd=wt, env=tdir)
            good = "FAILED" not in out and not re.search(r"^error", out, re.M) and "test result: ok" in out
            rec["ran"].append({"step": "existing tests of %s with change" % c, "ok": good, "tail": out[-400:]}); ok_confirm &= good
        f1, p1 = demo("with change")
        rec["confirmed"] = bool(ok_confirm and p0 and not f0 and f1)
    else:
        rc, out = sh("git apply %s" % patch, cwd=wt); assert rc == 0, out
        prev = os.path.join(dst, "meta.json")
        try: rec["confirmed"] = json.load(open(prev)).get("confirmed", "skipped") if "ran" in json.load(open(prev)) else "skipped"
        except Exception: rec["confirmed"] = "skipped"
    rec["checks"] = {}
    if skip:
        # a re-run against strengthened checks: keep what the other checks reported earlier
        try: rec["checks"] = dict(json.load(open(os.path.join(dst, "meta.json"))).get("checks", {}))
        except Exception: pass
    for c in checks:
        t = time.time()
        rc, out = sh("./check %s" % c, cwd=ROOT, env={"VERIF_REPO": wt}, timeout=3000)
        lines = [l for l in out.splitlines() if l.startswith(("VIOLATION", "PASS", "FAIL", "KNOWN-FINDING"))]
        rec["checks"][c] = {"rc": rc, "lines": [l[:300] for l in lines], "wall_s": round(time.time() - t)}
        # keep the replay of the first violation
        m = re.search(r"replay=(\S+)", out)
        if m and os.path.exists(m.group(1)): shutil.copy(m.group(1), os.path.join(dst, "replay_%s.json" % c))
    rec["detected_by"] = [c for c, r in rec["checks"].items() if r["rc"] != 0]
    rec["detected_with_concrete_input"] = [c for c, r in rec["checks"].items() if any(l.startswith("VIOLATION") and "no-failing-input-found" not in l for l in r["lines"])]
    json.dump(rec, open(os.path.join(dst, "meta.json"), "w"), indent=1)
    sh("flock /tmp/git.lock git -C /repo worktree remove --force %s" % wt); shutil.rmtree(wt, ignore_errors=True)
    import hashlib
    alt = os.path.join(ROOT, ".cache", "alt", hashlib.sha1(wt.encode()).hexdigest()[:10]); shutil.rmtree(alt, ignore_errors=True)
    print(name, "confirmed=%s" % rec["confirmed"], "detected_by=%s" % rec["detected_by"], "concrete=%s" % rec["detected_with_concrete_input"])
main()
